"""Helpers shared by the rule modules."""

from __future__ import annotations

import ast
from typing import Dict
from typing import FrozenSet
from typing import Iterable
from typing import Iterator
from typing import List
from typing import Optional
from typing import Tuple

from sa.flow import Domain
from sa.flow import Flow
from sa.kinds import JSON_KINDS
from sa.kinds import KindDomain
from sa.kinds import path_of
from sa.loader import AnalysisError
from sa.loader import ClassInfo
from sa.loader import FuncInfo
from sa.loader import Repo
from sa.loader import short


def kw(call: ast.Call, name: str) -> Optional[ast.expr]:
    for k in call.keywords:
        if k.arg == name:
            return k.value
    return None


def callee_name(call: ast.Call) -> Optional[str]:
    f = call.func
    if isinstance(f, ast.Name):
        return f.id
    if isinstance(f, ast.Attribute):
        return f.attr
    return None


def calls(node: ast.AST, name: Optional[str] = None) -> Iterator[ast.Call]:
    for n in ast.walk(node):
        if isinstance(n, ast.Call) and (name is None or callee_name(n) == name):
            yield n


def own_nodes(fn_node: ast.AST) -> Iterator[ast.AST]:
    """Walk a function body without descending into nested defs/lambdas."""
    stack = list(ast.iter_child_nodes(fn_node))
    while stack:
        n = stack.pop()
        yield n
        if isinstance(n, (ast.FunctionDef, ast.AsyncFunctionDef, ast.Lambda, ast.ClassDef)):
            continue
        stack.extend(ast.iter_child_nodes(n))


def selector_classes(repo: Repo) -> List[ClassInfo]:
    base = repo.require_class("JSONPathSelector")
    return [c for c in repo.subclasses(base, strict=True)]


def match_sites(repo: Repo) -> List[Tuple[FuncInfo, ast.Call]]:
    """Every `<...>.match_class(...)` construction inside a selector class."""
    out: List[Tuple[FuncInfo, ast.Call]] = []
    for cls in selector_classes(repo):
        for m in cls.methods.values():
            for c in calls(m.node, "match_class"):
                out.append((m, c))
    return out


def selector_kind_flow(fn: FuncInfo) -> Tuple[Flow, KindDomain]:
    """Kind analysis of a selector method with `<match>.obj` as a JSON value."""
    defaults: Dict[str, FrozenSet[str]] = {}
    for n in ast.walk(fn.node):
        if isinstance(n, ast.Attribute) and n.attr == "obj":
            p = path_of(n)
            if p:
                defaults[p] = JSON_KINDS
    dom = KindDomain(defaults=defaults)
    return Flow(fn.node, dom), dom


def subject_of_site(call: ast.Call) -> Optional[str]:
    """The access path of the value a match is selected *from*: `<parent>.obj`."""
    parent = kw(call, "parent")
    if parent is None:
        return None
    p = path_of(parent)
    return f"{p}.obj" if p else None


def class_of(fn: FuncInfo) -> str:
    return fn.cls.name if fn.cls else ""


class MustDomain(Domain):
    """Must-analysis: the state is the set of events that happened on *every*
    path to the point.  Events are strings `name@var`; assigning `var` kills
    every event about it."""

    def __init__(self, expr_events=None, refine_events=None, stmt_events=None):  # type: ignore[no-untyped-def]
        self.expr_events = expr_events or (lambda e: ())
        self.refine_events = refine_events or (lambda t, b: ())
        self.stmt_events = stmt_events or (lambda s: ())

    def initial(self, func: ast.AST) -> frozenset:
        return frozenset()

    def join(self, a: frozenset, b: frozenset) -> frozenset:
        return a & b

    def _kill(self, state: frozenset, names: Iterable[str]) -> frozenset:
        names = set(names)
        if not names:
            return state
        return frozenset(e for e in state if e.partition("@")[2] not in names)

    def transfer(self, stmt: ast.stmt, state: frozenset, flow: Flow) -> frozenset:
        killed: List[str] = []
        if isinstance(stmt, (ast.Assign, ast.AnnAssign, ast.AugAssign)):
            targets = stmt.targets if isinstance(stmt, ast.Assign) else [stmt.target]
            for t in targets:
                for n in ast.walk(t):
                    if isinstance(n, ast.Name) and isinstance(n.ctx, ast.Store):
                        killed.append(n.id)
                p = path_of(t)
                if p:
                    killed.append(p)
        state = self._kill(state, killed)
        return state | frozenset(self.stmt_events(stmt))

    def bind(self, target: ast.expr, iter_: ast.expr, state: frozenset, flow: Flow) -> frozenset:
        killed = [n.id for n in ast.walk(target) if isinstance(n, ast.Name)]
        return self._kill(state, killed)

    def refine(self, test: ast.expr, branch: bool, state: frozenset, flow: Flow) -> frozenset:
        return state | frozenset(self.refine_events(test, branch))

    def expr_effect(self, expr: ast.expr, state: frozenset, flow: Flow) -> frozenset:
        ev = self.expr_events(expr)
        return state | frozenset(ev) if ev else state


def must_flow(fn_node: ast.AST, **kw_: object) -> Flow:
    return Flow(fn_node, MustDomain(**kw_))  # type: ignore[arg-type]


def where(fn: FuncInfo, node: Optional[ast.AST] = None) -> str:
    return fn.loc(node)


def require(cond: bool, msg: str) -> None:
    if not cond:
        raise AnalysisError(msg)


def is_self_attr(e: ast.AST, attr: Optional[str] = None) -> bool:
    return (
        isinstance(e, ast.Attribute)
        and isinstance(e.value, ast.Name)
        and e.value.id == "self"
        and (attr is None or e.attr == attr)
    )


def const_str(e: Optional[ast.AST]) -> Optional[str]:
    if isinstance(e, ast.Constant) and isinstance(e.value, str):
        return e.value
    return None


def stmt_text(s: ast.AST) -> str:
    return short(s, 200)
