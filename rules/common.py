"""Helpers shared by the rule modules."""

from __future__ import annotations

import ast
from typing import Dict
from typing import FrozenSet
from typing import Iterable
from typing import Iterator
from typing import List
from typing import Optional
from typing import Set
from typing import Tuple

from sa.flow import Domain
from sa.flow import Flow
from sa.must import MustDomain
from sa.kinds import JSON_KINDS
from sa.kinds import KindDomain
from sa.kinds import path_of
from sa.loader import AnalysisError
from sa.loader import ClassInfo
from sa.loader import FuncInfo
from sa.loader import Repo
from sa.loader import short


def kw(call: ast.Call, name: str) -> Optional[ast.expr]:
    for k in call.keywords:
        if k.arg == name:
            return k.value
    return None


def callee_name(call: ast.Call) -> Optional[str]:
    f = call.func
    if isinstance(f, ast.Name):
        return f.id
    if isinstance(f, ast.Attribute):
        return f.attr
    return None


def calls(node: ast.AST, name: Optional[str] = None) -> Iterator[ast.Call]:
    for n in ast.walk(node):
        if isinstance(n, ast.Call) and (name is None or callee_name(n) == name):
            yield n


def own_nodes(fn_node: ast.AST) -> Iterator[ast.AST]:
    """Walk a function body without descending into nested defs/lambdas."""
    stack = list(ast.iter_child_nodes(fn_node))
    while stack:
        n = stack.pop()
        yield n
        if isinstance(n, (ast.FunctionDef, ast.AsyncFunctionDef, ast.Lambda, ast.ClassDef)):
            continue
        stack.extend(ast.iter_child_nodes(n))


def selector_classes(repo: Repo) -> List[ClassInfo]:
    base = repo.require_class("JSONPathSelector")
    return [c for c in repo.subclasses(base, strict=True)]


def match_sites(repo: Repo) -> List[Tuple[FuncInfo, ast.Call]]:
    """Every `<...>.match_class(...)` construction inside a selector class."""
    out: List[Tuple[FuncInfo, ast.Call]] = []
    for cls in selector_classes(repo):
        for m in cls.methods.values():
            for c in calls(m.node, "match_class"):
                out.append((m, c))
    return out


def selector_kind_flow(fn: FuncInfo) -> Tuple[Flow, KindDomain]:
    """Kind analysis of a selector method with `<match>.obj` as a JSON value."""
    defaults: Dict[str, FrozenSet[str]] = {}
    for n in ast.walk(fn.node):
        if isinstance(n, ast.Attribute) and n.attr == "obj":
            p = path_of(n)
            if p:
                defaults[p] = JSON_KINDS
    dom = KindDomain(defaults=defaults, elem_default=JSON_KINDS)
    return Flow(fn.node, dom), dom


def subject_of_site(call: ast.Call) -> Optional[str]:
    """The access path of the value a match is selected *from*: `<parent>.obj`."""
    parent = kw(call, "parent")
    if parent is None:
        return None
    p = path_of(parent)
    return f"{p}.obj" if p else None


def class_of(fn: FuncInfo) -> str:
    return fn.cls.name if fn.cls else ""


def must_flow(fn_node: ast.AST, **kw_: object) -> Flow:
    return Flow(fn_node, MustDomain(**kw_))  # type: ignore[arg-type]


def where(fn: FuncInfo, node: Optional[ast.AST] = None) -> str:
    return fn.loc(node)


def require(cond: bool, msg: str) -> None:
    if not cond:
        raise AnalysisError(msg)


def is_self_attr(e: ast.AST, attr: Optional[str] = None) -> bool:
    return (
        isinstance(e, ast.Attribute)
        and isinstance(e.value, ast.Name)
        and e.value.id == "self"
        and (attr is None or e.attr == attr)
    )


def const_str(e: Optional[ast.AST]) -> Optional[str]:
    if isinstance(e, ast.Constant) and isinstance(e.value, str):
        return e.value
    return None


def stmt_text(s: ast.AST) -> str:
    return short(s, 200)


def replace_chain(e: ast.AST) -> Optional[Tuple[ast.expr, List[Tuple[str, str]]]]:
    """`X.replace(a, b).replace(c, d)` -> (X, [(a, b), (c, d)]) for constant args."""
    chain: List[Tuple[str, str]] = []
    cur = e
    while (
        isinstance(cur, ast.Call)
        and isinstance(cur.func, ast.Attribute)
        and cur.func.attr == "replace"
        and len(cur.args) == 2
        and all(isinstance(a, ast.Constant) and isinstance(a.value, str) for a in cur.args)
    ):
        chain.append((cur.args[0].value, cur.args[1].value))  # type: ignore[union-attr]
        cur = cur.func.value
    if not chain:
        return None
    chain.reverse()
    return cur, chain  # type: ignore[return-value]


def outermost_replace_chains(node: ast.AST) -> List[Tuple[ast.Call, ast.expr, List[Tuple[str, str]]]]:
    """All maximal replace chains below `node`."""
    inner: set = set()
    out = []
    for n in ast.walk(node):
        if isinstance(n, ast.Call) and id(n) not in inner:
            rc = replace_chain(n)
            if rc is not None:
                base, chain = rc
                cur = n
                while isinstance(cur, ast.Call) and isinstance(cur.func, ast.Attribute) and cur.func.attr == "replace":
                    inner.add(id(cur))
                    cur = cur.func.value
                out.append((n, base, chain))
    return out


def path_conditions(fn_node: ast.AST, target: ast.AST) -> List[Tuple[ast.expr, bool]]:
    """The branch conditions under which `target` executes inside `fn_node`:
    [(test, branch)], conjunctions split into their conjuncts."""
    from sa.flow import parent_map

    parents = parent_map(fn_node)
    out: List[Tuple[ast.expr, bool]] = []
    cur: ast.AST = target
    while True:
        par = parents.get(id(cur))
        if par is None:
            break
        # guards that precede `cur` in its own block: reaching `cur` means they did not jump
        for f in ("body", "orelse", "finalbody"):
            blk = getattr(par, f, None)
            if isinstance(blk, list) and any(x is cur for x in blk):
                for sib in blk:
                    if sib is cur:
                        break
                    if isinstance(sib, ast.If):
                        if _jumps(sib.body) and not _jumps(sib.orelse):
                            out.extend(_split_cond(sib.test, False))
                        elif sib.orelse and _jumps(sib.orelse) and not _jumps(sib.body):
                            out.extend(_split_cond(sib.test, True))
        if isinstance(par, (ast.If, ast.While)):
            if any(x is cur for x in par.body):
                out.extend(_split_cond(par.test, True))
            elif any(x is cur for x in par.orelse):
                out.extend(_split_cond(par.test, False))
        elif isinstance(par, ast.IfExp):
            if cur is par.body:
                out.extend(_split_cond(par.test, True))
            elif cur is par.orelse:
                out.extend(_split_cond(par.test, False))
        elif isinstance(par, ast.BoolOp) and isinstance(par.op, ast.And):
            idx = par.values.index(cur) if cur in par.values else 0
            for v in par.values[:idx]:
                out.extend(_split_cond(v, True))
        elif isinstance(par, ast.BoolOp) and isinstance(par.op, ast.Or):
            idx = par.values.index(cur) if cur in par.values else 0
            for v in par.values[:idx]:
                out.extend(_split_cond(v, False))
        cur = par
    return out


_POSITIVE = {ast.NotEq: ast.Eq, ast.IsNot: ast.Is, ast.NotIn: ast.In}


def _jumps(body: List[ast.stmt]) -> bool:
    from sa.canon import jumps

    return jumps(body)


def _split_cond(test: ast.expr, branch: bool) -> List[Tuple[ast.expr, bool]]:
    """Atomic conditions; `a != b` is reported as (`a == b`, not branch), likewise `is not`, `not in`."""
    if isinstance(test, ast.UnaryOp) and isinstance(test.op, ast.Not):
        return _split_cond(test.operand, not branch)
    if isinstance(test, ast.Compare) and len(test.ops) == 1 and type(test.ops[0]) in _POSITIVE:
        pos = ast.copy_location(
            ast.Compare(left=test.left, ops=[_POSITIVE[type(test.ops[0])]()], comparators=test.comparators), test)
        return [(pos, not branch)]
    if isinstance(test, ast.BoolOp):
        if isinstance(test.op, ast.And) and branch:
            out: List[Tuple[ast.expr, bool]] = []
            for v in test.values:
                out.extend(_split_cond(v, True))
            return out
        if isinstance(test.op, ast.Or) and not branch:
            out = []
            for v in test.values:
                out.extend(_split_cond(v, False))
            return out
    return [(test, branch)]


def isinstance_classes(test: ast.expr) -> Optional[Tuple[str, List[str]]]:
    """(subject path, class names) of an isinstance() test, else None."""
    from sa.kinds import class_names

    if isinstance(test, ast.Call) and isinstance(test.func, ast.Name) and test.func.id == "isinstance" and len(test.args) == 2:
        p = path_of(test.args[0]) or ast.unparse(test.args[0])
        names = class_names(test.args[1])
        if names is not None:
            return p, names
    return None


def expand_locals(fn_node: ast.AST, expr: ast.AST, depth: int = 5, only=None) -> ast.AST:  # type: ignore[no-untyped-def]
    """`expr` with every local that has exactly one definition (a plain assignment) replaced by the
    expression it was assigned, transitively: what the expression is computed from."""
    import copy

    defs: dict = {}
    stores: dict = {}
    for n in ast.walk(fn_node):
        if isinstance(n, ast.Name) and isinstance(n.ctx, (ast.Store, ast.Del)):
            stores[n.id] = stores.get(n.id, 0) + 1
        if isinstance(n, ast.Assign) and len(n.targets) == 1 and isinstance(n.targets[0], ast.Name):
            defs.setdefault(n.targets[0].id, []).append(n.value)
        elif isinstance(n, ast.AnnAssign) and isinstance(n.target, ast.Name) and n.value is not None:
            defs.setdefault(n.target.id, []).append(n.value)

    class _X(ast.NodeTransformer):
        def __init__(self, d: int) -> None:
            self.d = d

        def visit_Name(self, node: ast.Name) -> ast.AST:
            if isinstance(node.ctx, ast.Load) and self.d > 0 and stores.get(node.id) == 1 and len(defs.get(node.id, [])) == 1:
                if only is not None and not only(defs[node.id][0]):
                    return node
                return _X(self.d - 1).visit(copy.deepcopy(defs[node.id][0]))
            return node

    return _X(depth).visit(copy.deepcopy(expr))


def value_leaves(e: ast.expr) -> List[ast.expr]:
    """The alternatives of a (nested) conditional expression: `a if c else (b if d else e)` -> [a, b, e].
    `path_conditions(fn, leaf)` gives the tests under which each one is the value."""
    if isinstance(e, ast.IfExp):
        return value_leaves(e.body) + value_leaves(e.orelse)
    return [e]


def preceding_def(fn_node: ast.AST, name: str, at: ast.AST) -> Optional[Tuple[ast.Assign, List[ast.stmt]]]:
    """The assignment `name = ...` that most closely precedes the statement containing `at` in block order
    (same block, else the enclosing blocks), with the statements executed in between (same nesting level
    only).  Positions come from the tree, not from line numbers - inlined code keeps its original lines."""
    from sa.flow import parent_map

    parents = parent_map(fn_node)
    cur: Optional[ast.AST] = at
    between: List[ast.stmt] = []
    while cur is not None:
        par = parents.get(id(cur))
        if par is None:
            return None
        for f in ("body", "orelse", "finalbody"):
            blk = getattr(par, f, None)
            if isinstance(blk, list) and any(x is cur for x in blk):
                idx = next(i for i, x in enumerate(blk) if x is cur)
                for j in range(idx - 1, -1, -1):
                    s = blk[j]
                    if isinstance(s, ast.Assign) and len(s.targets) == 1 and isinstance(s.targets[0], ast.Name) and s.targets[0].id == name:
                        return s, list(reversed(between))
                    between.append(s)
        cur = par
    return None


def is_text_expr(v: ast.AST) -> bool:
    return isinstance(v, ast.JoinedStr) or (isinstance(v, ast.Constant) and isinstance(v.value, str)) or (
        isinstance(v, ast.BinOp) and isinstance(v.op, ast.Add) and (is_text_expr(v.left) or is_text_expr(v.right)))


def resolved(fn_node: ast.AST, e: Optional[ast.expr], only=None) -> Optional[ast.expr]:  # type: ignore[no-untyped-def]
    """`e` with single-definition locals replaced by their values and the result brought to canonical
    expression form (so `match.path + suffix` with `suffix = f"[{i}]"` reads `f"{match.path}[{i}]"`)."""
    if e is None:
        return None
    from sa.canon import _Expr

    out = expand_locals(fn_node, e, only=only)
    ast.fix_missing_locations(out)
    for _ in range(4):
        x = _Expr()
        out = x.visit(out)
        ast.fix_missing_locations(out)
        if not x.changed:
            break
    return out  # type: ignore[return-value]


def shared_memo_stores(ctx, fn: FuncInfo) -> List[Tuple[ast.AST, str, List[str]]]:  # type: ignore[no-untyped-def]
    """Stores into a container that outlives the call - a class-level or module-level dict / list / set, reached as
    `self.NAME[...]`, `cls.NAME[...]`, `Class.NAME[...]` or a module global - whose key does not mention every
    parameter the function reads: a memo that gives one argument combination the answer computed for another.
    Returns (store node, container, parameters missing from the key).  A key that names all of them (a correctly
    keyed cache) is not reported."""
    node = fn.node
    params = [a.arg for a in node.args.args + node.args.kwonlyargs + node.args.posonlyargs if a.arg not in ("self", "cls")]
    read = {n.id for n in ast.walk(node) if isinstance(n, ast.Name) and isinstance(n.ctx, ast.Load) and n.id in params}
    class_level: Set[str] = set()
    if fn.cls is not None:
        for c in [fn.cls] + [ctx.repo.classes[q] for q in ctx.repo.mro(fn.cls) if q in ctx.repo.classes]:
            for st in c.node.body:
                tg = st.targets[0] if isinstance(st, ast.Assign) and len(st.targets) == 1 else (st.target if isinstance(st, ast.AnnAssign) else None)
                if isinstance(tg, ast.Name) and isinstance(getattr(st, "value", None), (ast.Dict, ast.List, ast.Set, ast.Call)):
                    class_level.add(tg.id)
        # an attribute the constructor assigns is per instance
        for c in [fn.cls]:
            init = c.methods.get("__init__")
            if init is not None:
                for n in ast.walk(init.node):
                    if isinstance(n, ast.Attribute) and isinstance(n.ctx, ast.Store) and path_of(n.value) == "self":
                        class_level.discard(n.attr)
    module_level = {k for k, v in fn.module.assigns.items() if isinstance(v, (ast.Dict, ast.List, ast.Set)) or (
        isinstance(v, ast.Call) and callee_name(v) in ("dict", "list", "set", "OrderedDict", "defaultdict", "WeakValueDictionary"))}
    local_stores = {n.id for n in ast.walk(node) if isinstance(n, ast.Name) and isinstance(n.ctx, ast.Store)}
    out: List[Tuple[ast.AST, str, List[str]]] = []

    def container(e: ast.expr) -> Optional[str]:
        if isinstance(e, ast.Attribute) and isinstance(e.value, ast.Name) and e.attr in class_level and (
                e.value.id in ("self", "cls") or (fn.cls is not None and e.value.id == fn.cls.name)):
            return f"{e.value.id}.{e.attr}"
        if isinstance(e, ast.Name) and e.id in module_level and e.id not in local_stores and e.id not in params:
            return e.id
        return None

    def key_params(k: ast.expr) -> Set[str]:
        full = expand_locals(node, k, depth=4)
        return {n.id for n in ast.walk(full) if isinstance(n, ast.Name) and n.id in params}

    def looked_up(cont_node: ast.expr, key: ast.expr) -> bool:
        # a memo is consulted before it is filled: `k in T`, `T.get(k)`, `T[k]` read under the same key
        want, k_ = ast.dump(cont_node), ast.dump(key)
        for m in ast.walk(node):
            if (isinstance(m, ast.Compare) and len(m.ops) == 1 and isinstance(m.ops[0], (ast.In, ast.NotIn)) and ast.dump(m.comparators[0]) == want
                    and ast.dump(m.left) == k_):
                return True
            if (isinstance(m, ast.Call) and isinstance(m.func, ast.Attribute) and m.func.attr in ("get", "setdefault") and ast.dump(m.func.value) == want
                    and m.args and ast.dump(m.args[0]) == k_):
                return True
            if isinstance(m, ast.Subscript) and isinstance(m.ctx, ast.Load) and ast.dump(m.value) == want and ast.dump(m.slice) == k_:
                return True
        return False

    for n in ast.walk(node):
        if isinstance(n, ast.Subscript) and isinstance(n.ctx, ast.Store):
            c = container(n.value)
            if c is not None:
                missing = sorted(read - key_params(n.slice))
                if missing:
                    out.append((n, c, missing))
                elif not looked_up(n.value, n.slice):
                    # not a memo at all: every call overwrites an entry that other instances / calls read
                    out.append((n, c, []))
        elif isinstance(n, ast.Call) and isinstance(n.func, ast.Attribute) and n.func.attr in ("setdefault", "append", "add", "update", "insert", "extend"):
            c = container(n.func.value)
            if c is not None:
                key = n.args[0] if n.args and n.func.attr == "setdefault" else None
                missing = sorted(read - (key_params(key) if key is not None else set()))
                if missing or key is None:
                    out.append((n, c, missing))
    return out


def follow_delegation(ctx, fn: FuncInfo, param: str, depth: int = 0):  # type: ignore[no-untyped-def]
    """A method that only hands its arguments on (`def _check(self, expr, tok): check(self.env, expr, tok)`): the
    function that does the work and the name `param` has there; (fn, param) itself when `fn` does more than that."""
    body = [b for b in fn.node.body if not (isinstance(b, ast.Expr) and isinstance(b.value, ast.Constant))]
    if depth > 3 or len(body) != 1 or not isinstance(body[0], (ast.Expr, ast.Return)) or not isinstance(body[0].value, ast.Call):  # noqa: PLR2004
        return fn, param
    c = body[0].value
    site = ctx.callgraph.by_node.get(id(c))
    cands = [x for x in (site.callees if site is not None else []) if x.module.name.startswith("jsonpath")]
    if len(cands) != 1 or cands[0] is fn:
        return fn, param
    callee = cands[0]
    params = [a.arg for a in callee.node.args.args]
    if callee.cls is not None and params and params[0] in ("self", "cls") and isinstance(c.func, ast.Attribute):
        params = params[1:]
    for i, a in enumerate(c.args):
        if isinstance(a, ast.Name) and a.id == param and i < len(params):
            return follow_delegation(ctx, callee, params[i], depth + 1)
    for k in c.keywords:
        if isinstance(k.value, ast.Name) and k.value.id == param and k.arg in params:
            return follow_delegation(ctx, callee, k.arg, depth + 1)
    return fn, param


def own_params(fn: FuncInfo) -> List[str]:
    """The positional parameters a caller fills: without `self` / `cls` for a method, all of them for a staticmethod or a
    plain function."""
    params = [a.arg for a in fn.node.args.posonlyargs + fn.node.args.args]
    decos = {ast.unparse(d).split(".")[-1] for d in fn.node.decorator_list}
    if fn.cls is not None and "staticmethod" not in decos and params:
        return params[1:]
    return params
