"""Abstract execution of repository methods on model objects (shared by rules).

`Model.call(obj, "method", args)` walks the canonical body of the method with sa/peval.py: `self` and the
arguments are `MObj` model objects (or plain constants), attribute reads and stores go to the object's fields,
class-level constants are folded, `str(obj)` / f-strings call the object's `__str__` the same way, calls of
methods on model objects recurse.  Nothing of the library is imported or run.
"""

from __future__ import annotations

import ast
from typing import Callable
from typing import Dict
from typing import List
from typing import Optional
from typing import Tuple

from sa.consteval import NotConst
from sa.loader import AnalysisError
from sa.peval import RETURNS_NONE
from sa.peval import UNKNOWN
from sa.peval import AbstractObject
from sa.peval import _PathRaises
from sa.peval import Explorer

from . import Ctx

CallHook = Callable[[ast.Call, List[object], Dict[str, object], Explorer], object]


class Model:
    def __init__(self, ctx: Ctx, rule: str, on_call: Optional[CallHook] = None, oracle=None) -> None:  # type: ignore[no-untyped-def]
        import sys as _sys

        if _sys.getrecursionlimit() < 6000:  # noqa: PLR2004
            _sys.setrecursionlimit(6000)  # nested abstract runs (a recursive equality on a nested document) are deep in Python frames
        self.ctx = ctx
        self.rule = rule
        self.depth = 0
        self.hook = on_call
        self.oracle = oracle
        self.whole_bodies = False  # run loops / with-blocks of every called method on the concrete values
        self.auto_construct = False  # `ClassOfThePackage(...)` / `cls(...)` / `Class.classmethod(...)` run abstractly too
        self.exact_exceptions = False  # try / except / suppress as they run on a concrete sample (sa/peval.py)
        self.last_raised: Optional[str] = None  # class of the exception behind the last RAISES (exact_exceptions)
        self.heap = False  # plain lists / dicts are changed in place (a document that a patch operation edits)
        self.cache: Dict[Tuple[int, str, Tuple[object, ...]], object] = {}

    def new(self, cls: str, *args: object, **kwargs: object) -> "MObj":
        obj = MObj(self, cls, {})
        init = self.ctx.repo.find_method(self.ctx.repo.require_class(cls), "__init__")
        if init is None:
            raise AnalysisError(f"{self.rule}: {cls}.__init__ not found")
        params = [a.arg for a in init.node.args.args][1:] + [a.arg for a in init.node.args.kwonlyargs]
        if set(kwargs) - set(params):
            raise AnalysisError(f"{self.rule}: {cls}.__init__ no longer takes {sorted(set(kwargs) - set(params))}")
        r = self.call(obj, "__init__", list(args), kwargs)
        if r is RAISES:
            raise _ConstructorRaises(cls)
        return obj

    def _materialise(self, inst):  # type: ignore[no-untyped-def]
        """A module-level object of an expression class (`TRUE = BooleanLiteral(value=True)`, `NIL = Nil()`) as a model
        object - one per constant, built by its own constructor expression; other folded instances (the `UNDEFINED`
        sentinel) stay what they are."""
        from sa.consteval import Instance as _Inst

        if not isinstance(inst, _Inst) or not self.ctx.repo.is_subclass(inst.cls.qualname, "jsonpath.filter.FilterExpression"):
            return inst
        made = self.__dict__.setdefault("_materialised", {})
        if id(inst) in made:
            return made[id(inst)][1]
        folder = self.ctx.folder
        for (mod_name, name), val in list(folder._global_cache.items()):
            if val is inst:
                mod = self.ctx.repo.modules.get(mod_name)
                expr = mod.assigns.get(name) if mod is not None else None
                if isinstance(expr, ast.Call) and not any(isinstance(a, ast.Starred) for a in expr.args) and all(k.arg for k in expr.keywords):
                    try:
                        args = [folder.eval_in(a, mod) for a in expr.args]
                        kws = {k.arg: folder.eval_in(k.value, mod) for k in expr.keywords}
                    except NotConst:
                        return inst
                    info = self.ctx.repo.find_method(inst.cls, "__init__")
                    obj = self.new(inst.cls.qualname, *args, **kws) if info is not None else MObj(self, inst.cls.qualname, {})
                    made[id(inst)] = (inst, obj)
                    return obj
        return inst

    def call_function(self, fn, args: List[object], kwargs: Optional[Dict[str, object]] = None) -> object:  # type: ignore[no-untyped-def]
        """A module-level function of the package, executed abstractly like a method (no receiver)."""
        holder = MObj(self, "$function", {})
        return self._run(fn, holder, fn.name, args, kwargs, bind_self=False)

    def call(self, obj: "MObj", method: str, args: List[object], kwargs: Optional[Dict[str, object]] = None,
             after: Optional[str] = None) -> object:
        """`after`: qualified name of a class - the method is looked up in the classes that follow it in the
        object's MRO (what `super().method(...)` inside that class means)."""
        cls = self.ctx.repo.require_class(obj.cls)
        if after is None:
            fn = self.ctx.repo.find_method(cls, method)
        else:
            fn = None
            mro = list(self.ctx.repo.mro(cls))
            if after in mro:
                for q in mro[mro.index(after) + 1:]:
                    info = self.ctx.repo.classes.get(q)
                    if info is not None and method in info.methods:
                        fn = info.methods[method]
                        break
            if fn is None:
                return RETURNS_NONE if method == "__init__" else UNKNOWN  # object.__init__ and the like
        if fn is None:
            return UNKNOWN
        return self._run(fn, obj, method, args, kwargs, bind_self=True)

    def _run(self, fn, obj: "MObj", method: str, args: List[object], kwargs: Optional[Dict[str, object]], bind_self: bool) -> object:  # type: ignore[no-untyped-def]
        def keyed(a: object) -> object:
            # True == 1 and hash(True) == hash(1): the type is part of the key, at every depth
            if isinstance(a, MObj):
                return ("$node", a.uid)
            if isinstance(a, tuple):
                return ("tuple", tuple(keyed(x) for x in a))
            return (type(a).__name__, a)

        key = (obj.uid, fn.qualname, tuple(keyed(a) for a in args))  # fn.qualname names the class
        # (no memo when objects carry state that calls change: a token stream, a document that is edited)
        cacheable = (method != "__init__" and not kwargs and not self.heap and not self.exact_exceptions
                     and all(isinstance(a, (str, int, float, bool, type(None), tuple, MObj)) for a in args))
        if cacheable and key in self.cache:
            return self.cache[key]
        if self.depth > 30:  # noqa: PLR2004
            raise AnalysisError(f"{self.rule}: recursion too deep in the abstract execution of {fn.qualname}")
        params = [a.arg for a in fn.node.args.args]
        static = any(isinstance(d, ast.Name) and d.id == "staticmethod" for d in fn.node.decorator_list) or not bind_self
        env: Dict[str, object] = {}
        if not static and params:
            env[params[0]] = obj
            params = params[1:]
        for pname, a in zip(params, args):
            env[pname] = a
        if fn.node.args.vararg is not None:
            env[fn.node.args.vararg.arg] = tuple(args[len(params):])
        named = set(params) | {a.arg for a in fn.node.args.kwonlyargs}
        extra_kw: Dict[str, object] = {}
        for k, v in (kwargs or {}).items():
            if fn.node.args.kwarg is not None and k not in named:
                extra_kw[k] = v  # collected by `**kwargs`
            else:
                env[k] = v
        if fn.node.args.kwarg is not None:
            env[fn.node.args.kwarg.arg] = extra_kw

        def default_value(d: ast.expr) -> object:
            try:
                return self.ctx.folder.eval_in(d, fn.module, fn.cls)
            except NotConst:
                return UNKNOWN

        defaults = fn.node.args.defaults
        for pname, d in zip(params[len(params) - len(defaults):], defaults):
            if pname not in env:
                env[pname] = default_value(d)
        for a, d in zip(fn.node.args.kwonlyargs, fn.node.args.kw_defaults):
            if a.arg not in env and d is not None:
                env[a.arg] = default_value(d)
        ex: Explorer

        def kwargs_of(e: ast.Call, env2: Dict[str, object]) -> Dict[str, object]:
            """Keyword arguments of a call, a `**mapping` the path knows spread out (unknown: the call cannot be followed)."""
            out_k: Dict[str, object] = {}
            for k in e.keywords:
                if k.arg is None:
                    spread = ex.value(k.value, env2)
                    if not isinstance(spread, dict) or not all(isinstance(x, str) for x in spread):
                        raise AnalysisError(f"{self.rule}: `{ast.unparse(e)[:60]}` passes a `**` mapping that is not known")
                    out_k.update(spread)
                else:
                    out_k[k.arg] = ex.value(k.value, env2)
            return out_k

        def on_call(e: ast.Call, a: List[object], env2: Dict[str, object]) -> object:
            if self.hook is not None:
                r = self.hook(e, a, env2, ex)
                if r is not None:
                    return r
            if self.auto_construct:
                target_cls: Optional[str] = None
                via_class_method: Optional[str] = None
                head = e.func if isinstance(e.func, ast.Name) else (e.func.value if isinstance(e.func, ast.Attribute) and isinstance(e.func.value, ast.Name) else None)
                if head is not None:
                    hv = env2.get(head.id)
                    from sa.consteval import ClassRef as _CR0

                    if isinstance(hv, ClassModel):
                        target_cls = hv.cls
                    elif isinstance(hv, _CR0) and hv.cls.module.name.startswith("jsonpath"):
                        target_cls = hv.cls.qualname  # a class taken from a table of classes
                    elif head.id not in env2:
                        try:
                            gv = self.ctx.folder.global_value(fn.module, head.id)
                        except (NotConst, AnalysisError):
                            gv = None
                        from sa.consteval import ClassRef as _CR

                        if isinstance(gv, _CR) and gv.cls.module.name.startswith("jsonpath"):
                            target_cls = gv.cls.qualname
                    if target_cls is not None and isinstance(e.func, ast.Attribute):
                        via_class_method = e.func.attr
                if target_cls is None and isinstance(e.func, ast.Attribute):
                    # a class reached through a module (`function_extensions.Length()`)
                    root_ = e.func
                    while isinstance(root_, ast.Attribute):
                        root_ = root_.value
                    if isinstance(root_, ast.Name) and root_.id not in env2:
                        try:
                            gv2 = self.ctx.folder.eval_in(e.func, fn.module, fn.cls)
                        except (NotConst, AnalysisError):
                            gv2 = None
                        from sa.consteval import ClassRef as _CR2

                        if isinstance(gv2, _CR2) and gv2.cls.module.name.startswith("jsonpath"):
                            target_cls = gv2.cls.qualname
                if target_cls is not None and not any(isinstance(x, ast.Starred) for x in e.args):
                    kwc = kwargs_of(e, env2)
                    info = self.ctx.repo.require_class(target_cls)
                    if via_class_method is None:
                        if self.ctx.repo.find_method(info, "__init__") is None and not self.ctx.repo.is_subclass(target_cls, "Exception") and not a and not kwc:
                            return MObj(self, target_cls, {})  # a class without a constructor of its own
                        if self.ctx.repo.find_method(info, "__init__") is not None and not self.ctx.repo.is_subclass(target_cls, "Exception"):
                            try:
                                return self.new(target_cls, *a, **kwc)
                            except _ConstructorRaises:
                                raise _PathRaises(self.last_raised or "constructor raises") from None
                    else:
                        cm = self.ctx.repo.find_method(info, via_class_method)
                        decos = [ast.unparse(d) for d in cm.node.decorator_list] if cm is not None else []
                        if cm is not None and ("classmethod" in decos or "staticmethod" in decos):
                            rc = self._run(cm, ClassModel(self, target_cls, {}), via_class_method, list(a), kwc, bind_self="classmethod" in decos)
                            if rc is RAISES:
                                raise _PathRaises(self.last_raised or "callee raises")
                            return RETURNS_NONE if rc is None else rc
            if isinstance(e.func, ast.Name) and e.func.id not in env2 and e.func.id not in fn.module.functions and e.func.id in fn.module.imports:
                # a function of another module of the package, imported by name
                src_mod, src_name = fn.module.imports[e.func.id]
                target = self.ctx.repo.modules.get(src_mod) or self.ctx.repo.modules.get(fn.module.name.rsplit(".", 1)[0] + "." + src_mod.lstrip("."))
                if target is not None and (src_name or e.func.id) in target.functions:
                    kwi = kwargs_of(e, env2)
                    ri = self.call_function(target.functions[src_name or e.func.id], list(a), kwi)
                    if ri is RAISES:
                        raise _PathRaises(self.last_raised or "callee raises")
                    return RETURNS_NONE if ri is None else ri
            if isinstance(e.func, ast.Name) and e.func.id not in env2 and e.func.id in fn.module.functions:
                # a module-level helper of the same module
                kwf = kwargs_of(e, env2)
                rf = self.call_function(fn.module.functions[e.func.id], list(a), kwf)
                if rf is RAISES:
                    raise _PathRaises(self.last_raised or "callee raises")
                return RETURNS_NONE if rf is None else rf
            if (isinstance(e.func, ast.Attribute) and isinstance(e.func.value, ast.Call) and isinstance(e.func.value.func, ast.Name)
                    and e.func.value.func.id == "super" and not e.func.value.args and fn.cls is not None and not static):
                kw0 = kwargs_of(e, env2)
                r0 = self.call(obj, e.func.attr, list(a), kw0, after=fn.cls.qualname)
                if r0 is RAISES:
                    raise _PathRaises(self.last_raised or "callee raises")
                return RETURNS_NONE if r0 is None else r0
            if isinstance(e.func, ast.Attribute) and isinstance(e.func.value, (ast.Name, ast.Attribute)):
                base = ex.value(e.func.value, env2)
                if self.auto_construct and isinstance(base, MObj) and not isinstance(base, ClassModel):
                    held = base.peval_getattr(e.func.attr)
                    if isinstance(held, ClassModel) and all(k.arg for k in e.keywords):
                        # a class held in an attribute (`self.lexer_class(env=self)`)
                        try:
                            return self.new(held.cls, *a, **kwargs_of(e, env2))
                        except _ConstructorRaises:
                            raise _PathRaises(self.last_raised or "constructor raises") from None
                if isinstance(base, MObj):
                    kw = kwargs_of(e, env2)
                    r = base.peval_call(e.func.attr, list(a), kw)
                    if r is RAISES:
                        raise _PathRaises(self.last_raised or "callee raises")
                    return RETURNS_NONE if r is None else r
            return None

        is_gen = any(isinstance(n, (ast.Yield, ast.YieldFrom)) for n in ast.walk(fn.node))
        ex = Explorer(self.ctx.folder, fn, self.oracle, on_call=on_call, enter_loops=is_gen or self.whole_bodies,
                      enter_with=is_gen or self.whole_bodies)
        ex.call_function = lambda f_, a_: self.call_function(f_, list(a_))
        ex.exact_exceptions = self.exact_exceptions
        ex.heap = self.heap
        if self.auto_construct:
            ex.instance_hook = self._materialise
        self.depth += 1
        try:
            outs = ex.run(env)
        finally:
            self.depth -= 1
        if self.exact_exceptions:
            # one concrete run: the outcomes are what happened
            self.last_raised = None
            kinds_x = [(k, v) for (k, _n, v) in outs]
            if kinds_x and all(k == "raise" for k, _v in kinds_x):
                classes_x = {str(v) for _k, v in kinds_x}
                self.last_raised = classes_x.pop() if len(classes_x) == 1 else None
                return RAISES
        if method == "__init__":
            return None
        if is_gen:
            # the value of calling a generator function, for an explorer that iterates over it: what one path
            # yields, in order (several paths = a test was not decided)
            ends = [e2 for (k, _n, _v), e2 in zip(outs, ex.envs) if k in ("fall", "return") and not e2.get("$handlers")]
            if len(ends) != 1 or any(k == "raise" for (k, _n, _v), e2 in zip(outs, ex.envs) if not e2.get("$handlers")):
                return UNKNOWN
            ys_ = ends[0].get("$yields", ())
            return list(ys_) if isinstance(ys_, tuple) else UNKNOWN
        # outcomes that went through an exception handler are the exceptional alternatives of a path that
        # also completes normally; the value of the call is that of the normal completions when there are any
        normal = [(k, v) for (k, _n, v), e2 in zip(outs, ex.envs) if not e2.get("$handlers")]
        if normal:
            chosen = normal
        else:
            # only handler paths are left: when the body certainly raised a known class, the handlers that catch it
            _UP = {"KeyError": {"LookupError"}, "IndexError": {"LookupError"}, "UnicodeDecodeError": {"ValueError"}, "re.error": {"error"}}

            def catches(h: ast.ExceptHandler, cls_: str) -> bool:
                if h.type is None:
                    return True
                names = {x.id for x in ast.walk(h.type) if isinstance(x, ast.Name)} | {x.attr for x in ast.walk(h.type) if isinstance(x, ast.Attribute)}
                return bool(names & ({cls_, cls_.split(".")[-1], "Exception", "BaseException"} | _UP.get(cls_, set())))

            chosen = []
            for (k, _n, v), e2 in zip(outs, ex.envs):
                hs = e2.get("$handlers") or ()
                if ex.raised and hs and not any(catches(hs[0], c_) for c_ in ex.raised):
                    continue
                chosen.append((k, v))
            if not chosen and ex.raised:
                chosen = [("raise", None)]
        vals = [v for k, v in chosen if k == "return"]
        others = [k for k, _v in chosen if k not in ("return",)]
        res: object = UNKNOWN
        if vals and not others and all(v == vals[0] for v in vals):
            res = vals[0]
        elif not vals and others and all(k == "raise" for k in others):
            res = RAISES
        elif not vals and others and all(k == "fall" for k in others):
            res = None
        if cacheable:
            self.cache[key] = res
        return res


class _Raises:
    def __repr__(self) -> str:
        return "RAISES"


RAISES = _Raises()


class MObj(AbstractObject):
    """A model object of a repository class: fields set by the (abstractly executed) constructor or given."""

    _count = 0

    def __init__(self, model: Model, cls: str, fields: Dict[str, object]) -> None:
        self.model = model
        self.cls = cls
        self.fields = fields
        MObj._count += 1
        self.uid = MObj._count

    def peval_getattr(self, name: str) -> object:
        if name in self.fields:
            return self.fields[name]
        # a method held as a value (`decoders.append(cls._unicode_escape)`), a property, or - first in the MRO wins - a
        # class-level constant (`return_type = ExpressionType.VALUE` in a subclass of a base that declares a property)
        if self.cls and not self.cls.startswith("$"):
            try:
                repo_ = self.model.ctx.repo
                info_ = repo_.require_class(self.cls)
                for q_ in repo_.mro(info_):
                    c_ = repo_.classes.get(q_)
                    if c_ is None:
                        continue
                    if name in c_.assigns:
                        break  # a class-level assignment: the constant path below
                    if name in c_.methods and name != "__init__":
                        m_ = c_.methods[name]
                        if any(ast.unparse(d).split(".")[-1] in ("property", "cached_property") for d in m_.node.decorator_list):
                            if type(self) is ClassModel:
                                return UNKNOWN
                            return self.model.call(self, name, [])
                        from sa.peval import Callable_ as _Callable

                        return _Callable("bound", name, obj=self)
            except AnalysisError:
                pass
        # not an instance field the constructor set: a class-level constant (a table, a precedence)
        try:
            v = self.model.ctx.folder.class_attr(self.model.ctx.repo.require_class(self.cls), name)
        except (NotConst, AnalysisError):
            return UNKNOWN
        from sa.consteval import ClassRef as _CRef
        from sa.consteval import RegexConst as _RC

        if isinstance(v, _CRef):
            return ClassModel(self.model, v.cls.qualname, {})  # a class held as a class attribute (`pointer_class = JSONPointer`)
        return v if isinstance(v, (str, int, float, bool, tuple, list, dict, frozenset, set, _RC)) else UNKNOWN

    def peval_setattr(self, name: str, value: object) -> None:
        self.fields[name] = value

    def peval_str(self) -> object:
        if "$text" in self.fields:
            return self.fields["$text"]
        return self.model.call(self, "__str__", [])

    def peval_isinstance(self, class_names: List[str]) -> Optional[bool]:
        return any(self.model.ctx.repo.is_subclass(self.cls, c) for c in class_names)

    def peval_call(self, method: str, args: List[object], kwargs: Dict[str, object]) -> object:
        return self.model.call(self, method, args, kwargs)

    def peval_copy(self, deep: bool, memo: Optional[Dict[int, object]] = None) -> object:
        """`copy.copy` / `copy.deepcopy` of a model object (no class of the package customises copying)."""
        if type(self) is not MObj:
            return UNKNOWN
        memo = {} if memo is None else memo
        if id(self) in memo:
            return memo[id(self)]
        new = MObj(self.model, self.cls, {})
        memo[id(self)] = new

        def cp(v: object) -> object:
            if not deep:
                return v
            if isinstance(v, MObj):
                return v.peval_copy(True, memo)
            if isinstance(v, list):
                return [cp(x) for x in v]
            if isinstance(v, tuple):
                return tuple(cp(x) for x in v)
            if isinstance(v, dict):
                return {k: cp(x) for k, x in v.items()}
            return v

        new.fields = {k: cp(v) for k, v in self.fields.items()}
        return new


class _ConstructorRaises(Exception):
    pass


class ClassModel(MObj):
    """The class object itself (what `cls` is bound to in a class method)."""

    def peval_isinstance(self, class_names: List[str]) -> Optional[bool]:
        return None


class NodeListModel(list, MObj):  # type: ignore[misc]
    """A node list: a Python list of model nodes (length, indexing, iteration and truth are the list's own) that is
    also a model object of jsonpath.match.NodeList, so that its methods (`empty()`, `values()`, ...) are executed
    abstractly on it."""

    def __init__(self, model: Model, nodes: List[object]) -> None:
        list.__init__(self, nodes)
        MObj.__init__(self, model, "jsonpath.match.NodeList", {})

    def __hash__(self) -> int:  # identity, like any model object
        return id(self)

    def __eq__(self, other: object) -> bool:
        return self is other

    def __ne__(self, other: object) -> bool:
        return self is not other


class StreamModel(MObj):
    """A token stream over tokens the rule supplies (the lexer model's reading of a text): `current`, `peek`,
    `next_token()`, `push()`, `expect()` and `expect_peek()` behave as jsonpath.stream.TokenStream documents them;
    a failed expectation ends the path like the syntax error it raises."""

    def __init__(self, model: Model, tokens: List[Tuple[str, str]], path: str = "") -> None:
        super().__init__(model, "jsonpath.stream.TokenStream", {})
        eof = model.ctx.folder.global_value(model.ctx.repo.modules["jsonpath.token"], "TOKEN_EOF")
        if not isinstance(eof, str):
            raise AnalysisError(f"{model.rule}: TOKEN_EOF is not a constant string")
        self.toks: List[MObj] = []
        at = 0
        for kind, value in tokens:
            self.toks.append(MObj(model, "jsonpath.token.Token", {"kind": kind, "value": value, "index": at, "path": path}))
            at += max(len(value or ""), 1)
        self.eof = MObj(model, "jsonpath.token.Token", {"kind": eof, "value": "", "index": -1, "path": path})
        self.pos = 0

    def _at(self, i: int) -> MObj:
        return self.toks[i] if 0 <= i < len(self.toks) else self.eof

    def peval_getattr(self, name: str) -> object:
        if name == "current":
            return self._at(self.pos)
        if name == "peek":
            return self._at(self.pos + 1)
        return UNKNOWN

    def peval_call(self, method: str, args: List[object], kwargs: Dict[str, object]) -> object:
        if method in ("next_token", "__next__") and not args:
            t = self._at(self.pos)
            if self.pos < len(self.toks):
                self.pos += 1
            return t
        if method == "push" and len(args) == 1 and isinstance(args[0], MObj):
            self.toks.insert(self.pos, args[0])
            return None
        if method in ("expect", "expect_peek") and all(isinstance(a, str) for a in args):
            tok = self._at(self.pos if method == "expect" else self.pos + 1)
            return None if tok.fields["kind"] in args else RAISES
        if method == "close":
            self.pos = len(self.toks)
            return None
        return UNKNOWN


SELECTOR_CLASSES = ("PropertySelector", "IndexSelector", "SliceSelector", "WildSelector", "KeysSelector", "Filter", "ListSelector",
                    "RecursiveDescentSelector")


def parse_bracketed(ctx: Ctx, rule: str, text: str, env_fields: Optional[Dict[str, object]] = None) -> object:
    """Abstract execution of `Parser.parse_selector_list` on the tokens the lexer model reads from `text` (a bracketed
    selection, `[` first): the selectors it constructs, in order, as (class name, keyword arguments without env and
    token); RAISES when the parser refuses the text; None when the execution cannot be followed."""
    from .common import callee_name

    # read off the result first (the selectors' own constructors run; sound however the parser reaches them); the
    # record of constructor calls *by name* below is the fallback for a result that cannot be read
    try:
        by_result = parse_bracketed_items(ctx, rule, text, env_fields)
    except AnalysisError:
        by_result = None
    if by_result is not None:
        return by_result
    got: List[Tuple[str, Dict[str, object]]] = []
    model: Model

    def hook(e: ast.Call, a: List[object], env: Dict[str, object], ex) -> object:  # type: ignore[no-untyped-def]
        n = callee_name(e)
        if n in SELECTOR_CLASSES:
            if n != "ListSelector":
                got.append((n, {k.arg: ex.value(k.value, env) for k in e.keywords if k.arg and k.arg not in ("env", "token")}))
            return MObj(model, "jsonpath.selectors." + n, {})
        return None

    model = Model(ctx, rule, hook)
    model.whole_bodies = True
    toks = [(k, v) for _r, k, v in ctx.lexer.tokens_of(text)]
    if any(k == "<ILLEGAL>" for k, _v in toks):
        return RAISES
    stream = StreamModel(model, toks, text)
    fields: Dict[str, object] = {"unicode_escape": True, "max_int_index": 2**53 - 1, "min_int_index": -(2**53) + 1, "well_typed": True}
    fields.update(env_fields or {})
    env_obj = MObj(model, "jsonpath.env.JSONPathEnvironment", fields)
    parser = MObj(model, "jsonpath.parse.Parser", {"env": env_obj})
    try:
        r = model.call(parser, "parse_selector_list", [stream])
    except AnalysisError:
        return None
    if r is RAISES:
        return RAISES
    if r is UNKNOWN or not isinstance(r, MObj):
        return None
    if stream.pos < len(stream.toks) - 1:
        return None  # tokens left unread: not one bracketed selection
    return got


def parse_bracketed_items(ctx: Ctx, rule: str, text: str, env_fields: Optional[Dict[str, object]] = None) -> object:
    """The same, read off the *result*: the parser and the selectors' own constructors are executed, and the items of the
    list selector that comes back are reported as (class name, what the constructor stored) - whichever way the parser
    gets to the constructors (by name, through a table of classes, through a helper that is handed the class)."""
    model = Model(ctx, rule)
    model.whole_bodies = model.auto_construct = True
    toks = [(k, v) for _r, k, v in ctx.lexer.tokens_of(text)]
    if any(k == "<ILLEGAL>" for k, _v in toks):
        return RAISES
    stream = StreamModel(model, toks, text)
    fields: Dict[str, object] = {"unicode_escape": True, "max_int_index": 2**53 - 1, "min_int_index": -(2**53) + 1, "well_typed": True}
    fields.update(env_fields or {})
    env_obj = MObj(model, "jsonpath.env.JSONPathEnvironment", fields)
    parser = MObj(model, "jsonpath.parse.Parser", {"env": env_obj})
    try:
        r = model.call(parser, "parse_selector_list", [stream])
    except AnalysisError:
        return None
    if r is RAISES:
        return RAISES
    if r is UNKNOWN or not isinstance(r, MObj) or stream.pos < len(stream.toks) - 1:
        return None
    items = r.fields.get("items", UNKNOWN)
    if not isinstance(items, (tuple, list)):
        return None
    out: List[Tuple[str, Dict[str, object]]] = []
    for it in items:
        if not isinstance(it, MObj):
            return None
        name = it.cls.split(".")[-1]
        kws = {k: v for k, v in it.fields.items() if k not in ("env", "token") and not k.startswith("_")}
        sl = kws.pop("slice", None)
        if isinstance(sl, slice):
            kws.update(start=sl.start, stop=sl.stop, step=sl.step)
        elif sl is not None:
            return None
        if any(v is UNKNOWN for v in kws.values()):
            return None
        out.append((name, kws))
    return out


def run_selector(ctx: Ctx, rule: str, cname: str, mname: str, fields: Dict[str, object], doc: object,
                 init: Optional[Dict[str, object]] = None, build=None) -> Optional[List[Tuple[object, object]]]:  # type: ignore[no-untyped-def]
    """Abstract execution of one selector's resolver on one input node whose value is `doc`: the (obj, parts) of
    every match it constructs, in order; None when a path cannot be decided."""
    from .common import callee_name
    from .common import kw

    cls = ctx.repo.require_class("jsonpath.selectors." + cname)
    fn = cls.methods.get(mname)
    if fn is None:
        raise AnalysisError(f"{rule}: {cname}.{mname} not found")
    loops = [x for x in fn.node.body if isinstance(x, (ast.For, ast.AsyncFor))]
    if len(loops) != 1 or not isinstance(loops[0].target, ast.Name):
        raise AnalysisError(f"{rule}: {cname}.{mname} is no longer one loop over the input nodes")
    mvar = loops[0].target.id
    got: List[Tuple[object, object]] = []

    def hook(e: ast.Call, a: List[object], env: Dict[str, object], ex: Explorer) -> object:
        if callee_name(e) in ("match_class", "JSONPathMatch"):
            o, pt = kw(e, "obj"), kw(e, "parts")
            return MObj(model, "JSONPathMatch", {"obj": ex.value(o, env) if o is not None else UNKNOWN,
                                                  "parts": ex.value(pt, env) if pt is not None else UNKNOWN,
                                                  "root": UNKNOWN, "path": UNKNOWN})
        return None

    model = Model(ctx, rule, hook)
    model.whole_bodies = True
    envobj = MObj(model, "JSONPathEnvironment", {})
    if build is not None:
        sel = build(model, envobj)
    elif init is not None:
        # the selector as its own constructor builds it
        sel = model.new(cname, env=envobj, token=MObj(model, "Token", {"value": UNKNOWN, "kind": UNKNOWN}), **init)
        missing = [k for k in fields if k not in sel.fields]
        if "env" not in sel.fields:
            sel.fields["env"] = envobj
        _ = missing
    else:
        sel = MObj(model, cname, dict(fields, env=envobj))
    match = MObj(model, "JSONPathMatch", {"obj": doc, "parts": ("a",), "path": "$['a']", "root": UNKNOWN})
    ex: Explorer

    def on_call(e: ast.Call, a: List[object], env: Dict[str, object]) -> object:
        r = hook(e, a, env, ex)
        if r is not None:
            return r
        target_fn = fn.module.functions.get(e.func.id) if isinstance(e.func, ast.Name) and e.func.id not in env else None
        if target_fn is None and isinstance(e.func, ast.Name) and e.func.id not in env:
            # a helper imported from another module of the package (maybe under another name)
            from sa.consteval import FuncRef as _FR
            from sa.consteval import NotConst as _NC

            try:
                gv = ctx.folder.global_value(fn.module, e.func.id)
            except (_NC, AnalysisError):
                gv = None
            if isinstance(gv, _FR) and gv.func.cls is None and gv.func.module.name.startswith("jsonpath"):
                target_fn = gv.func
        if target_fn is not None:
            kwf = {k.arg: ex.value(k.value, env) for k in e.keywords if k.arg}
            rf = model.call_function(target_fn, list(a), kwf)
            if rf is RAISES:
                raise _PathRaises(model.last_raised or "callee raises")
            return RETURNS_NONE if rf is None else rf
        if isinstance(e.func, ast.Attribute) and isinstance(e.func.value, (ast.Name, ast.Attribute)):
            base = ex.value(e.func.value, env)
            if isinstance(base, MObj):
                kws = {k.arg: ex.value(k.value, env) for k in e.keywords if k.arg}
                r2 = base.peval_call(e.func.attr, list(a), kws)
                if r2 is RAISES:
                    raise _PathRaises(model.last_raised or "callee raises")
                return RETURNS_NONE if r2 is None else r2
        return None

    ex = Explorer(ctx.folder, fn, None, on_call=on_call, enter_loops=True, enter_with=True)
    ends = ex.block(list(loops[0].body), {fn.node.args.args[0].arg: sel, mvar: match})
    # one concrete node: exactly one way through the body (more = a test was not decided); what the selector
    # produces is what that path *yields* (a match that is constructed but not yielded is not selected)
    finals = ends + [e2 for (k, _n, _v), e2 in zip(ex.outcomes, ex.envs) if k in ("continue", "break", "return")]
    if len(finals) != 1:
        if __import__("os").environ.get("VERIF_DEBUG_MODEL"):
            print("run_selector paths:", cname, mname, fields, doc, len(finals))
        return None
    ys = finals[0].get("$yields", ())
    if not isinstance(ys, tuple):
        if __import__("os").environ.get("VERIF_DEBUG_MODEL"):
            print("run_selector yields unknown:", cname, mname, fields, doc)
        return None
    got = []
    for y in ys:  # type: ignore[union-attr]
        if isinstance(y, MObj) and "obj" in y.fields:
            got.append((y.fields["obj"], y.fields.get("parts", UNKNOWN)))
        else:
            got.append((UNKNOWN, UNKNOWN))
    undecided = any(o is UNKNOWN or pt is UNKNOWN for o, pt in got)
    if undecided and __import__("os").environ.get("VERIF_DEBUG_MODEL"):
        print("run_selector undecided:", cname, mname, fields, doc, got)
    if undecided:
        return None
    return got
