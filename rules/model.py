"""Abstract execution of repository methods on model objects (shared by rules).

`Model.call(obj, "method", args)` walks the canonical body of the method with sa/peval.py: `self` and the
arguments are `MObj` model objects (or plain constants), attribute reads and stores go to the object's fields,
class-level constants are folded, `str(obj)` / f-strings call the object's `__str__` the same way, calls of
methods on model objects recurse.  Nothing of the library is imported or run.
"""

from __future__ import annotations

import ast
from typing import Callable
from typing import Dict
from typing import List
from typing import Optional
from typing import Tuple

from sa.consteval import NotConst
from sa.loader import AnalysisError
from sa.peval import RETURNS_NONE
from sa.peval import UNKNOWN
from sa.peval import AbstractObject
from sa.peval import Explorer

from . import Ctx

CallHook = Callable[[ast.Call, List[object], Dict[str, object], Explorer], object]


class Model:
    def __init__(self, ctx: Ctx, rule: str, on_call: Optional[CallHook] = None, oracle=None) -> None:  # type: ignore[no-untyped-def]
        self.ctx = ctx
        self.rule = rule
        self.depth = 0
        self.hook = on_call
        self.oracle = oracle
        self.cache: Dict[Tuple[int, str, Tuple[object, ...]], object] = {}

    def new(self, cls: str, **kwargs: object) -> "MObj":
        obj = MObj(self, cls, {})
        init = self.ctx.repo.find_method(self.ctx.repo.require_class(cls), "__init__")
        if init is None:
            raise AnalysisError(f"{self.rule}: {cls}.__init__ not found")
        params = [a.arg for a in init.node.args.args][1:] + [a.arg for a in init.node.args.kwonlyargs]
        if set(kwargs) - set(params):
            raise AnalysisError(f"{self.rule}: {cls}.__init__ no longer takes {sorted(set(kwargs) - set(params))}")
        self.call(obj, "__init__", [], kwargs)
        return obj

    def call(self, obj: "MObj", method: str, args: List[object], kwargs: Optional[Dict[str, object]] = None) -> object:
        fn = self.ctx.repo.find_method(self.ctx.repo.require_class(obj.cls), method)
        if fn is None:
            return UNKNOWN
        key = (obj.uid, fn.qualname, tuple(("$node", a.uid) if isinstance(a, MObj) else a for a in args))
        cacheable = method != "__init__" and not kwargs and all(isinstance(k, (str, int, float, bool, type(None), tuple)) for k in key[2])
        if cacheable and key in self.cache:
            return self.cache[key]
        if self.depth > 12:  # noqa: PLR2004
            raise AnalysisError(f"{self.rule}: recursion too deep in the abstract execution of {fn.qualname}")
        params = [a.arg for a in fn.node.args.args]
        static = any(isinstance(d, ast.Name) and d.id == "staticmethod" for d in fn.node.decorator_list)
        env: Dict[str, object] = {}
        if not static and params:
            env[params[0]] = obj
            params = params[1:]
        for pname, a in zip(params, args):
            env[pname] = a
        for k, v in (kwargs or {}).items():
            env[k] = v

        def default_value(d: ast.expr) -> object:
            try:
                return self.ctx.folder.eval_in(d, fn.module, fn.cls)
            except NotConst:
                return UNKNOWN

        defaults = fn.node.args.defaults
        for pname, d in zip(params[len(params) - len(defaults):], defaults):
            if pname not in env:
                env[pname] = default_value(d)
        for a, d in zip(fn.node.args.kwonlyargs, fn.node.args.kw_defaults):
            if a.arg not in env and d is not None:
                env[a.arg] = default_value(d)
        ex: Explorer

        def on_call(e: ast.Call, a: List[object], env2: Dict[str, object]) -> object:
            if self.hook is not None:
                r = self.hook(e, a, env2, ex)
                if r is not None:
                    return r
            if isinstance(e.func, ast.Attribute) and isinstance(e.func.value, (ast.Name, ast.Attribute)):
                base = ex.value(e.func.value, env2)
                if isinstance(base, MObj):
                    kw = {k.arg: ex.value(k.value, env2) for k in e.keywords if k.arg}
                    r = base.peval_call(e.func.attr, list(a), kw)
                    return RETURNS_NONE if r is None else r
            return None

        ex = Explorer(self.ctx.folder, fn, self.oracle, on_call=on_call)
        self.depth += 1
        try:
            outs = ex.run(env)
        finally:
            self.depth -= 1
        if method == "__init__":
            return None
        # outcomes that went through an exception handler are the exceptional alternatives of a path that
        # also completes normally; the value of the call is that of the normal completions when there are any
        normal = [(k, v) for (k, _n, v), e2 in zip(outs, ex.envs) if not e2.get("$handlers")]
        chosen = normal if normal else [(k, v) for k, _n, v in outs]
        vals = [v for k, v in chosen if k == "return"]
        others = [k for k, _v in chosen if k not in ("return",)]
        res: object = UNKNOWN
        if vals and not others and all(v == vals[0] for v in vals):
            res = vals[0]
        elif not vals and others and all(k == "raise" for k in others):
            res = RAISES
        elif not vals and others and all(k == "fall" for k in others):
            res = None
        if cacheable:
            self.cache[key] = res
        return res


class _Raises:
    def __repr__(self) -> str:
        return "RAISES"


RAISES = _Raises()


class MObj(AbstractObject):
    """A model object of a repository class: fields set by the (abstractly executed) constructor or given."""

    _count = 0

    def __init__(self, model: Model, cls: str, fields: Dict[str, object]) -> None:
        self.model = model
        self.cls = cls
        self.fields = fields
        MObj._count += 1
        self.uid = MObj._count

    def peval_getattr(self, name: str) -> object:
        if name in self.fields:
            return self.fields[name]
        # not an instance field the constructor set: a class-level constant (a table, a precedence)
        try:
            v = self.model.ctx.folder.class_attr(self.model.ctx.repo.require_class(self.cls), name)
        except (NotConst, AnalysisError):
            return UNKNOWN
        return v if isinstance(v, (str, int, float, bool, tuple, list, dict, frozenset, set)) else UNKNOWN

    def peval_setattr(self, name: str, value: object) -> None:
        self.fields[name] = value

    def peval_str(self) -> object:
        if "$text" in self.fields:
            return self.fields["$text"]
        return self.model.call(self, "__str__", [])

    def peval_isinstance(self, class_names: List[str]) -> Optional[bool]:
        return any(self.model.ctx.repo.is_subclass(self.cls, c) for c in class_names)

    def peval_call(self, method: str, args: List[object], kwargs: Dict[str, object]) -> object:
        return self.model.call(self, method, args, kwargs)
