"""C09 - evaluation is pure: read-only, repeatable, unaffected by caching.

R9.1 write effects: nothing reachable from the evaluation entry points writes to
     a compiled object, the document or the filter context
R9.2 volatility: nodes that read the per-node context are volatile; composite
     nodes expose every evaluated child through children()/set_children()
R9.3 the cache cell is created per resolution and never stored in a field
R9.4 compiled objects are immutable after construction
R9.5 the shared lexer and parser are stateless between calls
"""

from __future__ import annotations

import ast
from typing import Dict
from typing import List
from typing import Optional
from typing import Set
from typing import Tuple

from sa.kinds import path_of
from sa.loader import AnalysisError
from sa.loader import ClassInfo
from sa.loader import FuncInfo
from sa.loader import short
from sa.report import RuleResult

from . import Ctx
from .common import callee_name
from .common import calls
from .common import must_flow

MUTATORS = {"append", "extend", "insert", "pop", "remove", "clear", "update", "setdefault", "add", "sort",
            "reverse", "popleft", "appendleft", "discard", "__setitem__", "__delitem__"}

EVAL_ENTRIES = [
    "JSONPath.findall", "JSONPath.finditer", "JSONPath.match", "JSONPath.query",
    "JSONPath.findall_async", "JSONPath.finditer_async",
    "CompoundJSONPath.findall", "CompoundJSONPath.finditer", "CompoundJSONPath.match", "CompoundJSONPath.query",
    "CompoundJSONPath.findall_async", "CompoundJSONPath.finditer_async",
]
COMPILED_BASES = ["JSONPathSelector", "FilterExpression", "jsonpath.path.JSONPath", "jsonpath.path.CompoundJSONPath",
                  "JSONPathEnvironment", "Lexer", "Parser", "FilterFunction"]
DOC_ATTRS = ("obj", "root", "current", "extra_context", "value", "_filter_context")


def compiled_classes(ctx: Ctx) -> Set[str]:
    out: Set[str] = set()
    for b in COMPILED_BASES:
        for c in ctx.repo.subclasses(ctx.repo.require_class(b)):
            out.add(c.qualname)
    return out


def _writes(fn: FuncInfo) -> List[Tuple[ast.AST, ast.expr, str]]:
    """(node, receiver expression, how) for every store / delete / mutator call."""
    out: List[Tuple[ast.AST, ast.expr, str]] = []
    from sa.callgraph import _own_nodes

    for n in _own_nodes(fn.node):
        if isinstance(n, (ast.Assign, ast.AugAssign, ast.AnnAssign)):
            targets = n.targets if isinstance(n, ast.Assign) else [n.target]
            if isinstance(n, ast.AnnAssign) and n.value is None:
                continue
            for t in targets:
                for e in (t.elts if isinstance(t, (ast.Tuple, ast.List)) else [t]):
                    if isinstance(e, ast.Attribute):
                        out.append((n, e.value, f"store .{e.attr}"))
                    elif isinstance(e, ast.Subscript):
                        out.append((n, e.value, "item store"))
        elif isinstance(n, ast.Delete):
            for t in n.targets:
                if isinstance(t, (ast.Attribute, ast.Subscript)):
                    out.append((n, t.value, "delete"))
        elif isinstance(n, ast.Call) and isinstance(n.func, ast.Attribute) and n.func.attr in MUTATORS:
            out.append((n, n.func.value, f".{n.func.attr}()"))
    return out


def _fresh_locals(fn: FuncInfo) -> Set[str]:
    """Locals bound only to objects created in this activation."""
    cands: Dict[str, bool] = {}
    params = {a.arg for a in fn.node.args.args + fn.node.args.kwonlyargs}
    for n in ast.walk(fn.node):
        if isinstance(n, (ast.Assign, ast.AnnAssign)):
            targets = n.targets if isinstance(n, ast.Assign) else [n.target]
            value = n.value
            for t in targets:
                if isinstance(t, ast.Name) and value is not None:
                    v = value.value if isinstance(value, ast.Await) else value
                    fresh = isinstance(v, (ast.Call, ast.List, ast.Dict, ast.Set, ast.ListComp, ast.DictComp,
                                           ast.SetComp, ast.Tuple, ast.Constant, ast.JoinedStr, ast.GeneratorExp))
                    # a call that merely returns a field is not fresh: conservatively, attribute calls on
                    # document-ish receivers (match.filter_context()) are not fresh
                    if isinstance(v, ast.Call) and callee_name(v) in ("filter_context",):
                        fresh = False
                    cands[t.id] = cands.get(t.id, True) and fresh
    return {k for k, v in cands.items() if v and k not in params}


def r9_1(ctx: Ctx) -> RuleResult:
    rr = RuleResult("R9.1", "evaluation writes only to objects created by that evaluation", floor=15)
    entries = [ctx.repo.require_func(n) for n in EVAL_ENTRIES]
    reach = ctx.callgraph.reachable(entries)
    compiled = compiled_classes(ctx)
    per_eval = {"JSONPathMatch", "NodeList", "FilterContext", "Query", "CachingFilterExpression"}
    for q, path in sorted(reach.items()):
        fn = ctx.repo.functions[q]
        fresh = _fresh_locals(fn)
        handler_names = {h.name for h in ast.walk(fn.node) if isinstance(h, ast.ExceptHandler) and h.name}
        for node, recv, how in _writes(fn):
            root = recv
            while isinstance(root, (ast.Attribute, ast.Subscript)):
                root = root.value
            rp = path_of(recv) or ast.unparse(recv)
            via = " -> ".join(p.split(".", 1)[-1] for p in path[-4:])
            # 1. writes on self
            if isinstance(root, ast.Name) and root.id == "self":
                cname = fn.cls.name if fn.cls else ""
                cq = fn.cls.qualname if fn.cls else ""
                if fn.name in ("__init__",):
                    rr.ok(fn.loc(node), f"{fn.qualname}: constructor initialises its own fields")
                    continue
                if cname in per_eval:
                    rr.ok(fn.loc(node), f"{fn.qualname}: {how} on a per-evaluation object ({cname})")
                    continue
                if fn.name == "set_children":
                    # allowed only on fresh copies: checked at the call sites by R9.3
                    rr.ok(fn.loc(node), f"{fn.qualname}: set_children (callers restricted by R9.3)")
                    continue
                if cq in compiled:
                    rr.bad(fn, node, f"`{short(node)}` writes to the compiled object `{rp}` during evaluation "
                           f"(reached via {via}): a compiled query must not change when it is evaluated",
                           construct=short(node), witness=via)
                    continue
                rr.ok(fn.loc(node), f"{fn.qualname}: {how} on own state of {cname}")
                continue
            # 2. document-derived receivers
            if any(isinstance(a, ast.Attribute) and a.attr in DOC_ATTRS for a in ast.walk(recv)) and not (
                isinstance(recv, ast.Attribute) and recv.attr == "children"
            ):
                rr.bad(fn, node, f"`{short(node)}` modifies `{rp}`, a value taken from the document or the filter "
                       f"context (reached via {via})", construct=short(node), witness=via)
                continue
            # 3. locals
            if isinstance(root, ast.Name):
                if root.id in fresh:
                    rr.ok(fn.loc(node), f"{fn.qualname}: {how} on a fresh local `{root.id}`")
                    continue
                if root.id in handler_names and isinstance(recv, ast.Name):
                    rr.ok(fn.loc(node), f"{fn.qualname}: {how} on the caught exception `{root.id}`")
                    continue
                # parameters / loop variables: matches of the incoming stream
                t = ctx.callgraph.types.local_types(fn).get(root.id)
                names = {n.split(".")[-1] for n in t.names} if t is not None else set()
                if names and names <= per_eval | {"list", "dict", "deque"}:
                    if names <= per_eval:
                        rr.ok(fn.loc(node), f"{fn.qualname}: {how} on per-evaluation object `{root.id}` ({sorted(names)})")
                        continue
                if isinstance(recv, ast.Name) and t is not None and names <= {"list", "dict", "set", "deque"} and root.id not in {
                    a.arg for a in fn.node.args.args
                }:
                    rr.ok(fn.loc(node), f"{fn.qualname}: {how} on local container `{root.id}`")
                    continue
                cls_names = {n for n in (t.names if t is not None else [])}
                if cls_names & compiled:
                    rr.bad(fn, node, f"`{short(node)}` writes to `{rp}`, a compiled object, during evaluation "
                           f"(reached via {via})", construct=short(node), witness=via)
                    continue
                if fn.module.name in ("jsonpath.fluent_api",) or fn.cls is None and fn.module.name not in ("jsonpath.path", "jsonpath.filter", "jsonpath.selectors", "jsonpath.env"):
                    continue
                rr.bad(fn, node, f"`{short(node)}` writes to `{rp}`, which is neither created by this evaluation "
                       f"nor a per-evaluation object (reached via {via})", construct=short(node), witness=via)
    return rr


def r9_2(ctx: Ctx) -> RuleResult:
    rr = RuleResult("R9.2", "volatility flags and child coverage of filter nodes", floor=10)
    base = ctx.repo.require_class("FilterExpression")
    n_comp = 0
    for cls in ctx.repo.subclasses(base, strict=True):
        evals = [m for n in ("evaluate", "evaluate_async") for m in [cls.methods.get(n)] if m is not None]
        if not evals:
            continue
        helpers = []
        for m in evals:
            for c in calls(m.node):
                if isinstance(c.func, ast.Attribute) and path_of(c.func.value) == "self":
                    h = ctx.repo.find_method(cls, c.func.attr)
                    if h is not None:
                        helpers.append(h)
        reads_current = any(
            isinstance(a, ast.Attribute) and a.attr in ("current", "current_key") and isinstance(a.value, ast.Name)
            for m in evals + helpers for a in ast.walk(m.node)
        )
        init = cls.methods.get("__init__")
        vol_assign: Optional[bool] = None
        order_ok = True
        if init is not None:
            seen_super = False
            for s in init.node.body:
                if isinstance(s, ast.Expr) and isinstance(s.value, ast.Call) and "super()" in ast.unparse(s.value):
                    seen_super = True
                if isinstance(s, ast.Assign) and any(path_of(t) == "self.volatile" for t in s.targets) and isinstance(s.value, ast.Constant):
                    vol_assign = bool(s.value.value)
                    if cls.name != "CachingFilterExpression" and not seen_super:
                        order_ok = False
        if reads_current:
            if vol_assign is True and order_ok:
                rr.ok(cls.module.relpath + f":{cls.node.lineno}", f"{cls.name}: reads the per-node context and is volatile")
            else:
                rr.bad(init or evals[0], (init or evals[0]).node,
                       f"{cls.name} reads the current node / key but is not marked volatile after "
                       "super().__init__(): its value would be cached across candidates",
                       construct=f"{cls.name}.volatile")
        elif vol_assign is False:
            rr.ok(cls.module.relpath + f":{cls.node.lineno}", f"{cls.name}: not volatile and reads no per-node context")
        # composite coverage
        child_fields: List[str] = []
        for m in evals + helpers:
            for c in calls(m.node):
                if callee_name(c) in ("evaluate", "evaluate_async") and isinstance(c.func, ast.Attribute):
                    recv = c.func.value
                    p = path_of(recv)
                    if p and p.startswith("self.") and p.count(".") == 1:
                        if p[5:] not in child_fields:
                            child_fields.append(p[5:])
                    elif isinstance(recv, ast.Name):
                        # loop variable over self.<field>
                        for lp in ast.walk(m.node):
                            it = None
                            if isinstance(lp, (ast.For, ast.comprehension)) and path_of(lp.target) == recv.id:
                                it = path_of(lp.iter)
                            if it and it.startswith("self.") and it[5:] not in child_fields:
                                child_fields.append(it[5:])
        if not child_fields or cls.name == "CachingFilterExpression":
            continue
        n_comp += 1
        ch = cls.methods.get("children")
        sc = cls.methods.get("set_children")
        if ch is None or sc is None:
            rr.bad(evals[0], evals[0].node, f"{cls.name} evaluates child expressions but does not define children()/set_children()",
                   construct=f"{cls.name} children")
            continue
        ch_src = " ".join(ast.unparse(r.value) for r in ast.walk(ch.node) if isinstance(r, ast.Return) and r.value is not None)
        missing = [f for f in child_fields if f"self.{f}" not in ch_src]
        if missing:
            rr.bad(ch, ch.node, f"{cls.name}.children() omits {missing}: a volatile child in that field is invisible "
                   "to the caching decision", construct=f"{cls.name}.children omits {missing}")
        else:
            rr.ok(ch.loc(), f"{cls.name}.children() returns {child_fields}")
        assigned = [
            t.attr for s in ast.walk(sc.node) if isinstance(s, ast.Assign) for t in s.targets
            if isinstance(t, ast.Attribute) and path_of(t.value) == "self"
        ]
        if assigned == child_fields or (len(child_fields) == 1 and assigned == child_fields):
            rr.ok(sc.loc(), f"{cls.name}.set_children() assigns {assigned} in order")
        else:
            rr.bad(sc, sc.node, f"{cls.name}.set_children() assigns {assigned}, expected {child_fields} in this order",
                   construct=f"{cls.name}.set_children {assigned}")
    if n_comp < 5:
        raise AnalysisError(f"R9.2: only {n_comp} composite filter node classes found (floor 5)")
    return rr


def r9_3(ctx: Ctx) -> RuleResult:
    rr = RuleResult("R9.3", "cache cells are created per resolution and never stored", floor=4)
    # who constructs CachingFilterExpression
    n = 0
    for fn in ctx.repo.functions.values():
        for c in calls(fn.node, "CachingFilterExpression"):
            n += 1
            owner = ctx.callgraph.owner(fn)
            if owner.name == "cache_tree":
                arg = c.args[0] if c.args else None
                if isinstance(arg, ast.Call) and path_of(arg.func) == "copy.copy":
                    rr.ok(fn.loc(c), f"{fn.qualname}: cache cell wraps a copy of the node")
                else:
                    rr.bad(fn, c, "the cached node must be a copy of the compiled node", construct=short(c))
            else:
                rr.bad(fn, c, "cache cells may only be created by cache_tree()", construct=short(c))
    if n == 0:
        raise AnalysisError("R9.3: no construction of CachingFilterExpression found")
    # results of cache_tree() are stored only in locals
    for fn in ctx.repo.functions.values():
        for c in calls(fn.node, "cache_tree"):
            from sa.flow import parent_map

            parents = parent_map(fn.node)
            par = parents.get(id(c))
            # a conditional expression / await passes its operand's value on
            cur_: ast.AST = c
            while isinstance(par, (ast.IfExp, ast.Await, ast.BoolOp)) and not (isinstance(par, ast.IfExp) and par.test is cur_):
                cur_ = par
                par = parents.get(id(par))
            if isinstance(par, ast.Assign) and all(isinstance(t, ast.Name) for t in par.targets):
                rr.ok(fn.loc(c), f"{fn.qualname}: cache tree bound to a local")
            elif isinstance(par, ast.Call) and callee_name(par) == "walk":
                rr.ok(fn.loc(c), f"{fn.qualname}: cache tree only walked")
            else:
                rr.bad(fn, c, "the result of cache_tree() must live in a local variable of one resolution "
                       "(storing it would share cached values between evaluations)", construct=short(par or c))
    # every node of the returned tree that receives set_children is a copy or a new wrapper
    ct = ctx.repo.get_func("BooleanExpression.cache_tree")
    if ct is None:
        raise AnalysisError("BooleanExpression.cache_tree not found")
    inner = [f for f in ctx.repo.functions.values() if f.parent is ct]
    for f in inner + [ct]:
        for c in calls(f.node, "set_children"):
            recv = c.func.value  # type: ignore[union-attr]
            if not isinstance(recv, ast.Name):
                rr.bad(f, c, "set_children on something that is not a local", construct=short(c))
                continue
            from .common import path_conditions
            from .common import value_leaves

            srcs = [
                leaf for a in ast.walk(f.node)
                if isinstance(a, ast.Assign) and path_of(a.targets[0]) == recv.id
                for leaf in value_leaves(a.value)
            ]
            bad = []
            # a value computed by a local helper that is given the node and its children under their own names:
            # what the helper returns, under the conditions it returns it
            located = []
            for v in srcs:
                helper = None
                if isinstance(v, ast.Call) and isinstance(v.func, ast.Name) and not v.keywords:
                    helper = next((g for g in ctx.repo.functions.values() if g.name == v.func.id and g.parent is not None
                                   and (g.parent is f or g.parent is ct or g.parent is f.parent)), None)
                if helper is not None and [path_of(a) for a in v.args] == [a.arg for a in helper.node.args.args] and not any(
                        isinstance(n_, ast.Name) and isinstance(n_.ctx, ast.Store) and n_.id in {a.arg for a in helper.node.args.args}
                        for n_ in ast.walk(helper.node)):
                    rets = [r for r in ast.walk(helper.node) if isinstance(r, ast.Return) and r.value is not None]
                    located.extend((helper, leaf) for r in rets for leaf in value_leaves(r.value))
                else:
                    located.append((f, v))
            for g, v in located:
                if isinstance(v, ast.Call) and (path_of(v.func) == "copy.copy" or callee_name(v) == "CachingFilterExpression"):
                    continue
                # the original leaf may be passed through when it has no children
                conds = path_conditions(g.node, v)
                # the condition must *imply* that there are no children: an atomic
                # conjunct, not one disjunct of an `or`
                if any(ast.unparse(t).replace(" ", "") in ("len(children)==0", "notchildren") and b for t, b in conds) or any(
                    ast.unparse(t).replace(" ", "") == "children" and not b for t, b in conds
                ):
                    continue
                bad.append(v)
            if bad:
                rr.bad(f, c, f"`{recv.id}.set_children(...)` may be applied to the compiled node itself "
                       f"(`{recv.id} = {short(bad[0])}`)", construct=short(c))
            else:
                rr.ok(f.loc(c), f"{f.qualname}: set_children only on copies / wrappers / childless leaves")
    return rr


def _cache_cell_stores(ctx: Ctx) -> Set[str]:
    """The cache cell of the per-resolution wrapper, whatever it is called: the fields that the wrapper's constructor
    sets to something that is not one of its parameters (the "nothing cached yet" sentinel)."""
    def make() -> Set[str]:
        cls = ctx.repo.get_class("CachingFilterExpression")
        init = cls.methods.get("__init__") if cls is not None else None
        if init is None:
            return {"store ._cached"}
        params = {a.arg for a in init.node.args.args}
        out = set()
        for n in ast.walk(init.node):
            tgt = n.targets[0] if isinstance(n, ast.Assign) and len(n.targets) == 1 else (n.target if isinstance(n, ast.AnnAssign) and n.value is not None else None)
            if isinstance(tgt, ast.Attribute) and path_of(tgt.value) == "self":
                if not any(isinstance(x, ast.Name) and x.id in params - {"self"} for x in ast.walk(n.value)):  # type: ignore[union-attr]
                    out.add(f"store .{tgt.attr}")
        return out or {"store ._cached"}

    return ctx.cached("cache_cell_stores", make)


def r9_4(ctx: Ctx) -> RuleResult:
    rr = RuleResult("R9.4", "compiled objects are assigned only in their constructors", floor=20)
    classes: List[ClassInfo] = []
    for b in ("JSONPathSelector", "FilterExpression", "jsonpath.path.JSONPath", "jsonpath.path.CompoundJSONPath"):
        classes.extend(ctx.repo.subclasses(ctx.repo.require_class(b)))
    names = {c.name for c in classes}
    for fn in ctx.repo.functions.values():
        for node, recv, how in _writes(fn):
            if not how.startswith("store ."):
                continue
            owner_cls: Optional[str] = None
            if path_of(recv) == "self" and fn.cls is not None and fn.cls.name in names:
                owner_cls = fn.cls.name
            else:
                t = ctx.callgraph.types.expr_type(fn, recv)
                if t is not None:
                    hit = [n.split(".")[-1] for n in t.names if n.split(".")[-1] in names]
                    if hit:
                        owner_cls = hit[0]
            if owner_cls is None:
                continue
            if owner_cls == "CachingFilterExpression" and how in _cache_cell_stores(ctx):
                rr.ok(fn.loc(node), "cache cell of a per-resolution wrapper")
                continue
            if path_of(recv) == "self" and fn.name in ("__init__", "set_children"):
                rr.ok(fn.loc(node), f"{fn.qualname}: {how}")
                continue
            if how == "store .token" and fn.cls is not None and path_of(recv) != "self":
                # err.token = self.token on an exception object
                continue
            rr.bad(fn, node, f"a field of the compiled {owner_cls} is assigned outside its constructor: `{short(node)}`",
                   construct=short(node))
    # tuples
    for cname, field in (("jsonpath.path.JSONPath", "selectors"), ("jsonpath.selectors.ListSelector", "items"),
                         ("jsonpath.path.CompoundJSONPath", "paths")):
        cls = ctx.repo.require_class(cname)
        init = cls.methods.get("__init__")
        ok = False
        if init is not None:
            for n in ast.walk(init.node):
                if isinstance(n, ast.Assign) and any(path_of(t) == f"self.{field}" for t in n.targets):
                    ok = isinstance(n.value, ast.Call) and callee_name(n.value) == "tuple"
        if ok:
            rr.ok(cls.module.relpath, f"{cls.name}.{field} is stored as a tuple")
        else:
            rr.bad(init, init.node if init else None, f"{cls.name}.{field} must be stored as an immutable tuple",
                   construct=f"{cls.name}.{field} tuple")
    # callers of set_children
    for fn in ctx.repo.functions.values():
        for c in calls(fn.node, "set_children"):
            owner = ctx.callgraph.owner(fn)
            if owner.name == "cache_tree" or fn.name == "set_children":
                continue
            rr.bad(fn, c, "set_children() may only be called while building a cache tree", construct=short(c))
    return rr


def r9_5(ctx: Ctx) -> RuleResult:
    rr = RuleResult("R9.5", "lexer and parser keep no state between calls", floor=20)
    comp = ctx.repo.require_func("JSONPathEnvironment.compile")
    reach = ctx.callgraph.reachable([comp])
    n = 0
    for q in sorted(reach):
        fn = ctx.repo.functions[q]
        if fn.cls is None or fn.cls.name not in ("Lexer", "Parser"):
            continue
        n += 1
        bad = [
            (node, how) for node, recv, how in _writes(fn)
            if isinstance(recv, (ast.Name, ast.Attribute)) and (path_of(recv) or "").split(".")[0] == "self"
        ]
        if bad and fn.name != "__init__":
            for node, how in bad:
                rr.bad(fn, node, f"{fn.qualname} changes the shared {fn.cls.name} object while compiling: "
                       f"`{short(node)}`", construct=short(node))
        else:
            rr.ok(fn.loc(), f"{fn.qualname}: no store on self")
    if n < 20:
        raise AnalysisError(f"R9.5: only {n} lexer/parser methods reachable from compile (floor 20)")
    return rr


MEMO_DECORATORS = {"lru_cache", "cache", "cached_property", "memoize"}


def r9_6(ctx: Ctx, rule: str = "R9.6") -> RuleResult:
    """No memoisation on the evaluation / document-loading path: a cache that
    outlives a call makes results depend on history and hands the same mutable
    object to unrelated evaluations."""
    rr = RuleResult(rule, "nothing reachable from evaluation is memoised across calls", floor=20)
    entries = [ctx.repo.require_func(n) for n in EVAL_ENTRIES]
    reach = ctx.callgraph.reachable(entries)
    for q in sorted(reach):
        fn = ctx.repo.functions[q]
        memo = []
        for d in fn.node.decorator_list:
            target = d.func if isinstance(d, ast.Call) else d
            name = target.id if isinstance(target, ast.Name) else getattr(target, "attr", "")
            if name in MEMO_DECORATORS:
                memo.append(name)
        if memo:
            rr.bad(fn, fn.node, f"{fn.qualname} is memoised with @{memo[0]} and is reachable from query evaluation: "
                   "equal inputs then share one (mutable) result across evaluations, so a later result depends on what "
                   "callers did with an earlier one", construct=f"@{memo[0]} on {fn.name}")
        else:
            rr.ok(fn.loc(), f"{fn.qualname}: not memoised")
        # module-level mutable state written from the evaluation path
        mod_globals = {
            n for n, e in fn.module.assigns.items()
            if isinstance(e, (ast.Dict, ast.List, ast.Set)) or (isinstance(e, ast.Call) and callee_name(e) in ("dict", "list", "set", "defaultdict", "OrderedDict", "WeakValueDictionary"))
        }
        local_names = {a.arg for a in fn.node.args.args} | {
            x.id for x in ast.walk(fn.node) if isinstance(x, ast.Name) and isinstance(x.ctx, ast.Store)
        }
        for node, recv, how in _writes(fn):
            root = recv
            while isinstance(root, (ast.Attribute, ast.Subscript)):
                root = root.value
            if isinstance(root, ast.Name) and root.id in mod_globals and root.id not in local_names:
                rr.bad(fn, node, f"`{short(node)}` writes to the module-level container `{root.id}` during evaluation",
                       construct=short(node))
    return rr


def r9_7(ctx: Ctx) -> RuleResult:
    """What may be cached is decided by `volatile`: a node is volatile when its value depends on the current node or
    key, i.e. when it *is* such a node or any node below it is.  Every store to `self.volatile` in the expression
    classes must therefore be: the transitive disjunction over the children (the base constructor), the constant True,
    or the constant False in a class that has no children and whose evaluation does not read the current node / key.
    A class that computes it differently (e.g. from its direct arguments only) caches what must be re-evaluated."""
    rr = RuleResult("R9.7", "volatility is the disjunction over all nodes below", floor=5)
    base = ctx.repo.require_class("jsonpath.filter.FilterExpression")
    n = 0
    for cls in ctx.repo.subclasses(base, strict=False):
        for m_ in cls.methods.values():
            for st in ast.walk(m_.node):
                if not (isinstance(st, (ast.Assign, ast.AnnAssign))):
                    continue
                targets = st.targets if isinstance(st, ast.Assign) else [st.target]
                if not any(path_of(t) == "self.volatile" for t in targets) or st.value is None:
                    continue
                n += 1
                v = st.value
                if isinstance(v, ast.Constant) and v.value is True:
                    rr.ok(m_.loc(st), f"{cls.name}: volatile = True")
                    continue
                if isinstance(v, ast.Constant) and v.value is False and cls.name == "CachingFilterExpression":
                    # the cache cell itself: it is only ever built around a node that is not volatile (R9.3)
                    rr.ok(m_.loc(st), "CachingFilterExpression: the wrapper of a non-volatile node")
                    continue
                if isinstance(v, ast.Constant) and v.value is False:
                    reads_current = any(
                        isinstance(a, ast.Attribute) and a.attr in ("current", "current_key") and isinstance(a.value, ast.Name)
                        for name in ("evaluate", "evaluate_async") for fn_ in [ctx.repo.find_method(cls, name)] if fn_ is not None
                        for a in ast.walk(fn_.node))
                    ch = ctx.repo.find_method(cls, "children")
                    no_children = ch is None or all(
                        isinstance(r.value, (ast.List, ast.Tuple)) and not r.value.elts for r in ast.walk(ch.node) if isinstance(r, ast.Return)) or (
                        ch.cls is not None and ch.cls.name in ("Path",))
                    overridden_true = any(
                        isinstance(x, ast.Assign) and any(path_of(t) == "self.volatile" for t in x.targets) and isinstance(x.value, ast.Constant) and x.value.value is True
                        for x in ast.walk(m_.node))
                    if (not reads_current or overridden_true) and (no_children or ctx.repo.is_subclass(cls.qualname, "Path") or cls.name == "Path"):
                        rr.ok(m_.loc(st), f"{cls.name}: volatile = False (no children, does not read the current node)")
                    else:
                        rr.bad(m_, st, f"{cls.name} declares itself not volatile although it "
                               + ("reads the current node or key" if reads_current else "has children that may be volatile"),
                               construct=f"{cls.name}: volatile = False")
                    continue
                # computed: must be the disjunction over self.children()
                txt = ast.unparse(v)
                over_children = "children()" in txt and ".volatile" in txt and isinstance(v, ast.Call) and callee_name(v) == "any"
                if over_children:
                    rr.ok(m_.loc(st), f"{cls.name}: volatile = any(child.volatile for child in self.children())")
                else:
                    rr.bad(m_, st, f"{cls.name} computes its volatility as `{short(v, 90)}`, not as the disjunction over all its children: a node whose "
                           "dependency on the current node sits deeper (`length(value(@.tags))`) is treated as constant and its first value is "
                           "replayed for every other node", construct=f"{cls.name}: volatile = {short(v, 60)}")
    if n == 0:
        raise AnalysisError("R9.7: no store to self.volatile found in the filter expression classes")
    return rr


def r9_8(ctx: Ctx) -> RuleResult:
    """The result is a function of (query text, document, filter context) alone - so nothing that compiling or
    evaluating does may travel through state that environments, queries or calls share: no function of the query
    engine stores into a class-level or module-level container, unless it is a memo that is consulted first and
    keyed by every argument the function reads (= R4.8 over the engine's modules)."""
    from .c04 import r4_8

    return r4_8(ctx, "R9.8", modules=("jsonpath.env", "jsonpath.path", "jsonpath.filter", "jsonpath.selectors", "jsonpath.lex", "jsonpath.parse",
                                      "jsonpath.match", "jsonpath.stream", "jsonpath.token", "jsonpath.function_extensions", "jsonpath._data",
                                      "jsonpath.serialize", "jsonpath.fluent_api"), floor=200)


def r9_9(ctx: Ctx) -> RuleResult:
    """Evaluation never modifies the document - also not the projecting evaluation `Query.select()`, which builds new
    containers out of parts of the document: Query._select executed abstractly on covering selections (= R19.11, its
    purity clause only) must leave the document the same objects with the same content."""
    from .c19 import projection_by_execution

    return projection_by_execution(ctx, "R9.9", floor=30, only_purity=True)


RULES = [r9_1, r9_2, r9_3, r9_4, r9_5, r9_6, r9_7, r9_8, r9_9]
