"""C20 - match -> pointer -> patch edits exactly the matched node.

R20.1 parts are a str for members and an int for elements, exactly as selected
R20.2 the pointer is built from those parts without re-parsing (= R3.4)
R20.3 the patch builder passes pointer objects through untouched
R20.4 test/replace/remove address the parent with the last part only; pointer
      resolution tries the exact key before any non-standard fallback
"""

from __future__ import annotations

import ast
from typing import List
from typing import Optional

from sa.kinds import ARRAY
from sa.kinds import INT
from sa.kinds import OBJECT
from sa.kinds import STRING
from sa.kinds import path_of
from sa.loader import AnalysisError
from sa.loader import short
from sa.report import RuleResult

from . import Ctx
from .c01 import site_kinds
from .c03 import appended_part
from .c03 import r3_4
from .c05 import op_classes
from .c05 import op_name
from .common import own_params
from .common import callee_name
from .common import calls
from .common import expand_locals
from .common import class_of
from .common import selector_kind_flow


def r20_1(ctx: Ctx) -> RuleResult:
    rr = RuleResult("R20.1", "location parts are str for members and int for elements", floor=18)
    types = ctx.callgraph.types
    flows = {}
    for fn, call, subj, ks, murky in site_kinds(ctx):
        if class_of(fn) == "KeysSelector":
            continue
        k = appended_part(call, fn.node)
        if k is None or ks is None:
            raise AnalysisError(f"R20.1: cannot find the appended part at {fn.loc(call)}")
        if fn.qualname not in flows:
            flows[fn.qualname] = selector_kind_flow(fn)
        flow, dom = flows[fn.qualname]
        st = flow.at.get(id(call))
        kk = dom.kinds_of(k, st) if st is not None else None
        t = types.expr_type(fn, k)
        tn = set(t.names) if t is not None else None
        is_str = (tn is not None and tn <= {"str"}) or (kk is not None and kk <= {STRING})
        is_int = (tn is not None and tn <= {"int"}) or (kk is not None and kk <= {INT})
        if ks <= {OBJECT}:
            if is_str:
                rr.ok(fn.loc(call), f"{fn.qualname}: member part {short(k)} is a str")
            else:
                rr.bad(fn, call, f"the part appended for an object member, `{short(k)}`, is not statically a str "
                       f"(type {sorted(tn) if tn else 'unknown'}): the JSON Pointer built from it addresses another member",
                       construct=f"parts + ({short(k)},) at object site")
        elif ks <= {ARRAY}:
            if is_int:
                rr.ok(fn.loc(call), f"{fn.qualname}: element part {short(k)} is an int")
            else:
                rr.bad(fn, call, f"the part appended for an array element, `{short(k)}`, is not statically an int "
                       f"(type {sorted(tn) if tn else 'unknown'})", construct=f"parts + ({short(k)},) at array site")
        else:
            raise AnalysisError(f"R20.1: site {fn.loc(call)} is neither an object nor an array site (R1.1 decides this)")
    return rr


def r20_2(ctx: Ctx) -> RuleResult:
    return r3_4(ctx, "R20.2")


def r20_3(ctx: Ctx) -> RuleResult:
    rr = RuleResult("R20.3", "patch builders pass JSONPointer objects through untouched", floor=9)
    patch_cls = ctx.repo.require_class("JSONPatch")
    ep = patch_cls.methods.get("_ensure_pointer")
    if ep is None:
        raise AnalysisError("JSONPatch._ensure_pointer not found")
    param = own_params(ep)[0]
    rets = [r for r in ast.walk(ep.node) if isinstance(r, ast.Return)]
    passthrough = [r for r in rets if path_of(r.value) == param]
    roundtrip = [
        r for r in rets
        if r.value is not None and any(
            isinstance(c, ast.Call) and callee_name(c) == "str" and c.args and path_of(c.args[0]) == param
            for c in ast.walk(r.value)
        )
    ]
    if passthrough and not roundtrip:
        rr.ok(ep.loc(), "_ensure_pointer returns a JSONPointer argument itself")
    else:
        rr.bad(ep, ep.node, "_ensure_pointer must return a JSONPointer argument unchanged (no str() round trip, "
               "which would re-parse tokens such as `1` or `~`)", construct="_ensure_pointer pass-through")
    names = {op_name(ctx, c) for c in op_classes(ctx)}
    for n in sorted(names):
        b = patch_cls.methods.get(n)
        if b is None:
            continue
        for a in b.node.args.args:
            if a.arg in ("path", "from_"):
                routed = any(
                    callee_name(c) == "_ensure_pointer" and c.args and path_of(c.args[0]) == a.arg
                    for c in calls(b.node)
                )
                routed_ids = {
                    id(x) for c in calls(b.node) if callee_name(c) == "_ensure_pointer" for x in ast.walk(c)
                }
                used_raw = any(
                    isinstance(x, ast.Name) and x.id == a.arg and isinstance(x.ctx, ast.Load) and id(x) not in routed_ids
                    for c in calls(b.node) if callee_name(c) != "_ensure_pointer"
                    for x in ast.walk(c)
                )
                if routed and not used_raw:
                    rr.ok(b.loc(), f"{n}({a.arg}) routed through _ensure_pointer")
                else:
                    rr.bad(b, b.node, f"builder `{n}` does not route `{a.arg}` through _ensure_pointer",
                           construct=f"{n}: {a.arg}")
    return rr


def r20_4(ctx: Ctx) -> RuleResult:
    rr = RuleResult("R20.4", "test/replace/remove write only at the addressed member or element", floor=4)
    for cls in op_classes(ctx):
        name = op_name(ctx, cls)
        if name not in ("test", "replace", "remove"):
            continue
        fn = cls.methods.get("apply")
        if fn is None:
            raise AnalysisError(f"{cls.name}.apply not found")
        # the variable bound to the parent of self.path
        parent_vars = set()
        for n in ast.walk(fn.node):
            if isinstance(n, ast.Assign) and isinstance(n.value, ast.Call) and callee_name(n.value) == "resolve_parent":
                if path_of(n.value.func.value) == "self.path" and isinstance(n.targets[0], ast.Tuple):  # type: ignore[union-attr]
                    p0 = n.targets[0].elts[0]
                    if isinstance(p0, ast.Name):
                        parent_vars.add(p0.id)
        writes: List[ast.AST] = []
        for n in ast.walk(fn.node):
            if isinstance(n, ast.Delete):
                writes.extend(n.targets)
            elif isinstance(n, (ast.Assign, ast.AugAssign)):
                targets = n.targets if isinstance(n, ast.Assign) else [n.target]
                writes.extend(t for t in targets if isinstance(t, (ast.Subscript, ast.Attribute)))
            elif isinstance(n, ast.Call) and callee_name(n) in (
                "append", "insert", "extend", "pop", "remove", "clear", "update", "setdefault", "sort", "reverse"
            ) and isinstance(n.func, ast.Attribute):
                writes.append(n)
        ok = True
        for w in writes:
            if isinstance(w, ast.Subscript) and path_of(w.value) in parent_vars:
                # key must derive from the last part of self.path
                derives = "self.path.parts[-1]" in ast.unparse(expand_locals(fn.node, w.slice))
                if derives:
                    continue
                ok = False
                rr.bad(fn, w, f"`{name}` writes `{short(w)}` whose key is not the last part of its own pointer",
                       construct=short(w))
            else:
                ok = False
                rr.bad(fn, w, f"`{name}` changes something other than the addressed member/element of the parent: "
                       f"`{short(w)}`", construct=short(w))
        if name == "test" and writes:
            ok = False
        if ok:
            rr.ok(fn.loc(), f"{name}: {len(writes)} write(s), all on parent[last part]")
    # exact key first
    gi = ctx.repo.require_func("JSONPointer._getitem")
    params = [a.arg for a in gi.node.args.args]
    from sa.flow import parent_map

    stored = {n.id for n in ast.walk(gi.node) if isinstance(n, ast.Name) and isinstance(n.ctx, (ast.Store, ast.Del))}
    exact_txt = f"getitem({params[1]}, {params[2]})"
    first_ok = False
    the_try: Optional[ast.Try] = None
    if not ({params[1], params[2]} & stored):
        for t in [n for n in gi.node.body if isinstance(n, ast.Try)]:
            # the exact lookup is the first thing the `try` evaluates
            head = t.body[0] if t.body else None
            hv = getattr(head, "value", None)
            if isinstance(head, (ast.Return, ast.Assign)) and hv is not None and ast.unparse(hv) == exact_txt:
                the_try = t
                break
    if the_try is not None:
        first_ok = True
        parents = parent_map(gi.node)
        for r in [n for n in ast.walk(gi.node) if isinstance(n, ast.Return) and n.value is not None]:
            if ast.unparse(expand_locals(gi.node, r.value)) == exact_txt:
                continue  # the result of the exact lookup itself
            cur: Optional[ast.AST] = r
            inside = False
            while cur is not None:
                par = parents.get(id(cur))
                if isinstance(cur, ast.ExceptHandler) and par is the_try:
                    inside = True
                cur = par
            if not inside:
                first_ok = False
                rr.bad(gi, r, f"`{short(r)}` can be returned before the exact key has been looked up: a member "
                       "literally named like the non-standard form (`#a`, `~a`) is shadowed by its sibling",
                       construct=short(r))
    if first_ok:
        rr.ok(gi.loc(), "_getitem tries getitem(obj, key) with the unmodified key first")
    elif not rr.findings:
        rr.bad(gi, gi.node, "_getitem must try the exact key before any `#`/`~` fallback (a member literally "
               "named `#a` or `~a` would otherwise be unreachable)", construct="exact key first")
    return rr


def r20_5(ctx: Ctx) -> RuleResult:
    from .c05 import r5_3

    return r5_3(ctx, "R20.5", only=("test", "replace", "remove"), floor=2)


def r20_6(ctx: Ctx) -> RuleResult:
    """The pointer's string form, parsed again, addresses the same member: member
    names that merely look like indices stay member names (= R4.2)."""
    from .c04 import r4_2

    return r4_2(ctx, "R20.6")


def r20_7(ctx: Ctx) -> RuleResult:
    """A match's parts address the matched node: an int for an array element (its index from the start), a str for an object member (= R1.14)."""
    from .c01 import r1_14

    return r1_14(ctx, "R20.7")


#: a document whose locations cover what the property names: member names with the escaped characters, names that
#: look like integers (canonical, leading zero, negative) next to arrays, the empty name, blanks, non-ASCII, nesting
EDIT_DOC = {"a": {"0": "zero", "1": [10, {"x/y": 1, "~": 2, "~1": 3}], "01": "lead", "-1": "neg"}, "": [[], {"": 0}], "0": ["first", "second"], "k l": {"\u00e9": [None]},
            "t": True, "arr": [[1, 2], [3]], "10": "ten", "1": {"0": {"00": 1}},
            # equal values at several positions (equal also in Python's sense: 1 == True == 1.0, 0 == False)
            "dup": ["start", "retry", "fail", "retry", 1, True, 1.0, 0, False, [1], [1], {"k": 0}, {"k": False}, None, None],
            # names a pointer *text* would read differently (backslash sequences, the key markers `~` / `#` in front of a
            # sibling's name, signed / padded / non-ASCII digits), each next to the sibling it could be taken for
            "n": {"\\u0041": [1], "A": [2], "C:\\temp\\new.txt": 3, "\\": 4, "\\/": 5, "/": 6, "~a": 7, "a": 8, "#0": 9, "0": 10, "-0": 11, "+1": 12, "1": 13, " 1": 14,
                  "1_0": 15, "\uff11": 16, "1e0": 17, "#a": 18, "~0": 19, "~": 20, "9007199254740993": {"deep": 21}},
            # values whose comparison has corner cases: a null member, an empty object / array, nested nulls
            "z": {"nul": None, "e": {}, "l": [], "deep": [{"email": None, "n": 0}, {"": None}]}}


def r20_8(ctx: Ctx) -> RuleResult:
    """The property itself on a covering document, by abstract execution (rules/model.py; exceptions as they run, the
    document changed in place): for every location of EDIT_DOC - its parts typed as the selectors type them (R20.7: a
    member name is a str, an array index an int) - the pointer of a match at that location is used as the target of
    `test` (with the value found there), `replace` and `remove`; `test` must pass and leave the document alone,
    `replace` must give the document that differs at exactly that location, `remove` the document without exactly that
    member or element."""
    import copy as _copy

    from sa.peval import UNKNOWN

    from . import rfc6902
    from .model import RAISES
    from .model import MObj
    from .model import Model

    rr = RuleResult("R20.8", "a match's pointer used as a patch target edits exactly the matched location (covering document)", floor=60)
    mcls = ctx.repo.require_class("jsonpath.match.JSONPathMatch")
    pfn = ctx.repo.find_method(mcls, "pointer")
    if pfn is None:
        raise AnalysisError("R20.8: JSONPathMatch.pointer not found")
    locations: List[Tuple[Tuple[object, ...], object]] = []

    def walk(v: object, parts: Tuple[object, ...]) -> None:
        locations.append((parts, v))
        if isinstance(v, dict):
            for k, x in v.items():
                walk(x, parts + (k,))
        elif isinstance(v, list):
            for i, x in enumerate(v):
                walk(x, parts + (i,))

    walk(EDIT_DOC, ())

    def edited(parts: Tuple[object, ...], how: str) -> object:
        doc = _copy.deepcopy(EDIT_DOC)
        if not parts or how == "test":
            return {"replaced": [1]} if how == "replace" else doc
        parent = doc
        for p_ in parts[:-1]:
            parent = parent[p_]  # type: ignore[index]
        if how == "replace":
            parent[parts[-1]] = {"replaced": [1]}  # type: ignore[index]
        else:
            del parent[parts[-1]]  # type: ignore[arg-type]
        return doc

    for parts, node in locations:
        where = "$" + "".join(f"[{p_!r}]" for p_ in parts)
        for how in ("test", "replace", "remove"):
            if how == "remove" and not parts:
                continue
            model = Model(ctx, "R20.8")
            model.whole_bodies = model.auto_construct = model.exact_exceptions = model.heap = True
            doc = _copy.deepcopy(EDIT_DOC)
            here = doc
            for p_ in parts:
                here = here[p_]  # type: ignore[index]
            match = model.new("jsonpath.match.JSONPathMatch", filter_context={}, obj=here, parent=None, path=where, parts=parts, root=doc)
            ptr = model.call(match, "pointer", [])
            if ptr is RAISES:
                rr.bad(pfn, pfn.node, f"the match at {where} has no pointer: pointer() raises {str(model.last_raised).split('.')[-1]}", construct=f"pointer() at {where} raises")
                break
            if not isinstance(ptr, MObj):
                raise AnalysisError(f"R20.8: the pointer of the match at {where} cannot be determined")
            patch = model.new("jsonpath.patch.JSONPatch")
            target: object = ptr
            text0 = ptr.fields.get("_s")
            if how == "remove" and isinstance(text0, str) and "\\" not in text0 and not any(len(str(p_)) > 15 for p_ in parts):  # noqa: PLR2004
                # ... and, for every other location, in its text form (what goes into a JSON Patch document); names with a
                # backslash and integers beyond the index limits are the known findings of R3.6 and stay with the object form
                target = text0
            args = [target, _copy.deepcopy(node)] if how == "test" else ([target, {"replaced": [1]}] if how == "replace" else [target])
            built = model.call(patch, how, args)
            if built is RAISES:
                rr.bad(pfn, pfn.node, f"the pointer of the match at {where} ({ptr.fields.get('_s')!r}) is refused as the target of `{how}`: {model.last_raised}",
                       construct=f"{how} at {where}: builder raises")
                continue
            got = model.call(patch, "apply", [doc])
            text = ptr.fields.get("_s")
            if got is UNKNOWN:
                raise AnalysisError(f"R20.8: the result of `{how}` at {where} cannot be determined")
            if got is RAISES:
                rr.bad(pfn, pfn.node, f"`{how}` with the pointer of the match at {where} ({text!r}) fails: {str(model.last_raised).split('.')[-1]} - the pointer does not "
                       "address the matched location", construct=f"{how} at {where} raises")
                continue
            want = edited(parts, how)
            if rfc6902.jeq(got, want) and how == "test" and isinstance(text, str) and "\\" not in text and not any(len(str(p_)) > 15 for p_ in parts) \
                    and (node is None or node is False or node == 0 or node == "" or node == [] or node == {}):  # noqa: PLR2004
                # ... and as a patch *document* (what `json patch` and JSON text give): a `test` whose value is null / false /
                # 0 / empty is an operation like any other
                from .model import _ConstructorRaises

                model_d = Model(ctx, "R20.8")
                model_d.whole_bodies = model_d.auto_construct = model_d.exact_exceptions = model_d.heap = True
                doc_d = _copy.deepcopy(EDIT_DOC)
                try:
                    patch_d = model_d.new("jsonpath.patch.JSONPatch", [{"op": "test", "path": text, "value": _copy.deepcopy(node)}])
                    got_d = model_d.call(patch_d, "apply", [doc_d])
                except _ConstructorRaises:
                    got_d = RAISES
                if got_d is UNKNOWN:
                    raise AnalysisError(f"R20.8: the result of the patch document `test` at {where} cannot be determined")
                if got_d is RAISES:
                    rr.bad(pfn, pfn.node, f"the patch document [{{'op': 'test', 'path': {text!r}, 'value': {node!r}}}] - the matched value at the match's own pointer - is "
                           f"refused: {str(model_d.last_raised).split('.')[-1]}", construct=f"document test at {where} raises")
                    continue
            if rfc6902.jeq(got, want):
                rr.ok(pfn.loc(), f"{how} at {where} via {text!r}")
            else:
                rr.bad(pfn, pfn.node, f"`{how}` with the pointer of the match at {where} ({text!r}) gives {got!r:.140}; addressing that location directly gives {want!r:.140}",
                       construct=f"{how} at {where} edits another location")
    return rr


RULES = [r20_1, r20_2, r20_3, r20_4, r20_5, r20_6, r20_7, r20_8]
