"""C13 - documented non-standard syntax means what the documentation says.

R13.1 every operator the parser can emit is implemented by the evaluator; `<>`
      is wired exactly like `!=`
R13.2 every alias spelling reaches the same parser action as its standard one
R13.3 `contains` is the mirror of `in`
R13.4 `=~` is a full match and the flags are compiled in
R13.5 keys selector: objects only, in member order, value is the key
R13.6 fake root wraps the document in both twins, detected at every sub-path
R13.7 the filter context reaches nested filters at any depth
R13.8 root-less queries and bare names build the same selector as the quoted form
"""

from __future__ import annotations

import ast
import re
import copy
from typing import Dict
from typing import List
from typing import Optional
from typing import Set
from typing import Tuple

from sa.consteval import NotConst
from sa.kinds import OBJECT
from sa.kinds import path_of
from sa.loader import AnalysisError
from sa.loader import FuncInfo
from sa.loader import short
from sa.report import RuleResult

from . import Ctx
from .c01 import site_kinds
from .c02 import _term
from .c02 import compare_branches
from .c02 import path_classes
from .c02 import path_method
from .c02 import token_const
from .common import callee_name
from .common import calls
from .common import class_of
from .common import kw

OPERATOR_ALIASES = [("<>", "!=")]

ALIAS_GROUPS: List[Tuple[str, ...]] = [
    ("&&", "and"),
    ("||", "or"),
    ("!", "not"),
    ("null", "nil", "none", "Null", "Nil", "None"),
    ("true", "True"),
    ("false", "False"),
    ("undefined", "missing"),
]


def parser_tables(ctx: Ctx) -> Dict[str, Dict[str, str]]:
    return ctx.tokflow.tables


#: operator -> ((operands it is true for), (operands it is false for))
_OPERATOR_WITNESSES = {
    "&&": ((True, True), (True, False)), "||": ((False, True), (False, False)), "==": ((1, 1), (1, 2)), "!=": ((1, 2), (1, 1)), "<>": ((1, 2), (1, 1)),
    "<": ((1, 2), (2, 1)), ">": ((2, 1), (1, 2)), "<=": ((1, 1), (2, 1)), ">=": ((1, 1), (1, 2)), "in": ((1, (1, 2)), (3, (1, 2))),
    "contains": (((1, 2), 1), ((1, 2), 3)), "=~": (("abc", re.compile("a.c")), ("xabcx", re.compile("a.c"))),
}


def _branches(ctx: Ctx):  # type: ignore[no-untyped-def]
    """The branches of compare() per operator, or None when its dispatch is not spelled as tests on the operator."""
    try:
        br = compare_branches(ctx)
    except AnalysisError:
        return None
    return br if all(op in br for op in ("==", "!=", "<", "in", "contains", "=~", "&&", "||")) else None


def r13_1(ctx: Ctx) -> RuleResult:
    rr = RuleResult("R13.1", "every parsed operator is evaluated; `<>` equals `!=`", floor=12)
    parser = ctx.repo.require_class("Parser")
    try:
        ops = ctx.folder.class_attr(parser, "BINARY_OPERATORS")
        cmp_ops = ctx.folder.class_attr(parser, "COMPARISON_OPERATORS")
    except NotConst as err:
        raise AnalysisError(f"R13.1: parser operator tables cannot be folded: {err}") from err
    fn = ctx.repo.require_func("JSONPathEnvironment.compare")
    br = _branches(ctx)
    if br is None:
        # compare() dispatches through data: each operator the parser emits is executed on a witness for which it
        # must answer true, and on one for which it must answer false (an operator without an entry answers false
        # to both); the aliases must answer like their standard spelling on a grid of operands
        from sa.peval import UNKNOWN as _UNK

        from .c02 import run_compare
        from .model import RAISES as _RAISES

        for tok, op in sorted(ops.items()):
            wit = _OPERATOR_WITNESSES.get(op)
            if wit is None:
                raise AnalysisError(f"R13.1: no witness operands for the operator `{op}` the parser emits")
            (ta, tb), (fa, fb) = wit
            yes, no = run_compare(ctx, "R13.1", ta, op, tb), run_compare(ctx, "R13.1", fa, op, fb)
            if yes is _UNK or no is _UNK:
                raise AnalysisError(f"R13.1: what compare() answers for `{op}` cannot be determined")
            if yes is True and no is False:
                rr.ok(fn.loc(), f"operator `{op}` ({tok}) is evaluated: {ta!r} {op} {tb!r} is true, {fa!r} {op} {fb!r} is false")
            else:
                rr.bad(fn, fn.node, f"the parser emits the operator `{op}` (token {tok}) but compare() answers {'an exception' if yes is _RAISES else yes} for "
                       f"`{ta!r} {op} {tb!r}` and {'an exception' if no is _RAISES else no} for `{fa!r} {op} {fb!r}`", construct=f"no branch for {op}")
        grid = [None, True, False, 0, 1, 1.0, 2, "a", "b", "", (), (1,), (1, 2), {}, {"a": 1}]
        for alias, std in OPERATOR_ALIASES:
            diff = next(((a, b) for a in grid for b in grid if run_compare(ctx, "R13.1", a, alias, b) != run_compare(ctx, "R13.1", a, std, b)), None)
            if diff is None:
                rr.ok(fn.loc(), f"`{alias}` computes the same as `{std}` on {len(grid) ** 2} pairs of operands")
            else:
                rr.bad(fn, fn.node, f"`{alias}` must evaluate exactly like `{std}`: they differ for {diff[0]!r} and {diff[1]!r}", construct=f"{alias} vs {std}")
            if (alias in cmp_ops) == (std in cmp_ops):
                rr.ok(f"{parser.module.relpath}:{parser.node.lineno}", f"`{alias}` and `{std}` get the same comparability checks")
            else:
                rr.bad(None, None, f"`{std}` is in Parser.COMPARISON_OPERATORS but its alias `{alias}` is not (or vice "
                       "versa): non-singular queries and logical functions are not rejected for the alias",
                       construct=f"COMPARISON_OPERATORS: {alias} vs {std}", file=parser.module.relpath,
                       qualname=parser.qualname + ".COMPARISON_OPERATORS")
        br = {}
    for tok, op in sorted(ops.items()) if br else []:
        if op in br:
            rr.ok(fn.loc(br[op][0]), f"operator `{op}` ({tok}) has a branch in compare()")
        else:
            rr.bad(fn, fn.node, f"the parser emits the operator `{op}` (token {tok}) but compare() has no branch "
                   "for it: every such comparison evaluates to false", construct=f"no branch for {op}")
    params = [a.arg for a in fn.node.args.args]
    left, right = params[1], params[3]
    for alias, std in OPERATOR_ALIASES:
        if alias not in br or std not in br:
            continue
        ta, ts = _term(br[alias][1], left, right), _term(br[std][1], left, right)
        same_branch = False
        if same_branch or (ta is not None and ta == ts) or ast.unparse(br[alias][1]) == ast.unparse(br[std][1]):
            rr.ok(fn.loc(br[alias][0]), f"`{alias}` computes the same as `{std}`")
        else:
            rr.bad(fn, br[alias][0], f"`{alias}` must evaluate exactly like `{std}`: {short(br[alias][1])} vs "
                   f"{short(br[std][1])}", construct=f"{alias}: {short(br[alias][1])}")
        if (alias in cmp_ops) == (std in cmp_ops):
            rr.ok(f"{parser.module.relpath}:{parser.node.lineno}", f"`{alias}` and `{std}` get the same comparability checks")
        else:
            rr.bad(None, None, f"`{std}` is in Parser.COMPARISON_OPERATORS but its alias `{alias}` is not (or vice "
                   "versa): non-singular queries and logical functions are not rejected for the alias",
                   construct=f"COMPARISON_OPERATORS: {alias} vs {std}", file=parser.module.relpath,
                   qualname=parser.qualname + ".COMPARISON_OPERATORS")
    # the alias binds as tightly as the standard spelling: same entry in the precedence table (a missing entry is
    # the lowest precedence, and `a && b <> 1` would then group as `(a && b) <> 1`)
    try:
        prec = ctx.folder.class_attr(parser, "PRECEDENCES")
        lowest = ctx.folder.class_attr(parser, "PRECEDENCE_LOWEST")
    except NotConst as err:
        raise AnalysisError(f"R13.1: Parser.PRECEDENCES cannot be folded: {err}") from err
    tok_of: Dict[str, List[str]] = {}
    for tok, op in ops.items():
        tok_of.setdefault(op, []).append(tok)
    where = f"{parser.module.relpath}:{parser.node.lineno}"
    for alias, std in OPERATOR_ALIASES:
        for ta_ in tok_of.get(alias, []):
            for ts_ in tok_of.get(std, []):
                pa, ps_ = prec.get(ta_, lowest), prec.get(ts_, lowest)
                if pa == ps_:
                    rr.ok(where, f"`{alias}` ({ta_}) has the precedence of `{std}` ({ps_})")
                else:
                    rr.bad(None, None, f"`{alias}` (token {ta_}) has precedence {pa} but `{std}` (token {ts_}) has {ps_}"
                           + (" (no entry in Parser.PRECEDENCES: the lowest precedence)" if ta_ not in prec else "")
                           + f": next to `&&` / `||` the alias groups differently, `@.b && @.a {alias} 1` is `(@.b && @.a) {alias} 1`",
                           construct=f"PRECEDENCES: {alias} vs {std}", file=parser.module.relpath, qualname=parser.qualname + ".PRECEDENCES")
    for tok, op in sorted(ops.items()):
        if tok not in prec:
            rr.bad(None, None, f"the binary operator `{op}` (token {tok}) has no entry in Parser.PRECEDENCES", construct=f"PRECEDENCES lacks {tok}",
                   file=parser.module.relpath, qualname=parser.qualname + ".PRECEDENCES")
    return rr


def _kind_of_spelling(ctx: Ctx, text: str) -> str:
    toks = ctx.lexer.classify(text)
    if len(toks) != 1 or toks[0][2] != text:
        raise AnalysisError(f"R13.2: the reconstructed lexer does not read `{text}` as one token: {toks}")
    kinds = toks[0][1].split("|")
    if len(kinds) != 1:
        raise AnalysisError(f"R13.2: spelling `{text}` maps to several token kinds {kinds}")
    return kinds[0]


def r13_2(ctx: Ctx) -> RuleResult:
    rr = RuleResult("R13.2", "alias spellings reach the same parser action as the standard spelling", floor=11)
    tables = parser_tables(ctx)
    if len(tables) < 3:
        raise AnalysisError(f"R13.2: expected three parser dispatch maps, found {sorted(tables)}")
    parser = ctx.repo.require_class("Parser")
    ops = ctx.folder.class_attr(parser, "BINARY_OPERATORS")
    prec = ctx.folder.class_attr(parser, "PRECEDENCES")
    where = f"{parser.module.relpath}:{parser.node.lineno}"
    for group in ALIAS_GROUPS:
        std = group[0]
        kstd = _kind_of_spelling(ctx, std)
        for alias in group[1:]:
            ka = _kind_of_spelling(ctx, alias)
            problems = []
            for tname, table in tables.items():
                if kstd in table and table.get(ka) != table[kstd]:
                    problems.append(f"{tname}: `{std}` -> {table[kstd]}, `{alias}` -> {table.get(ka)}")
            if (kstd in ops or ka in ops) and ops.get(kstd) != ops.get(ka):
                problems.append(f"BINARY_OPERATORS: {ops.get(kstd)!r} vs {ops.get(ka)!r}")
            if (kstd in prec or ka in prec) and prec.get(kstd) != prec.get(ka):
                problems.append(f"PRECEDENCES: {prec.get(kstd)!r} vs {prec.get(ka)!r}")
            if problems:
                rr.bad(None, None, f"`{alias}` is documented as an alias of `{std}` but parses differently: "
                       + "; ".join(problems), construct=f"alias {alias} of {std}", file=parser.module.relpath,
                       qualname=parser.qualname)
            else:
                rr.ok(where, f"`{alias}` (token {ka}) parses like `{std}` (token {kstd})")
    return rr


class _Swap(ast.NodeTransformer):
    def __init__(self, a: str, b: str) -> None:
        self.a, self.b = a, b

    def visit_Name(self, node: ast.Name) -> ast.AST:
        if node.id == self.a:
            node.id = self.b
        elif node.id == self.b:
            node.id = self.a
        return node


def r13_3(ctx: Ctx) -> RuleResult:
    rr = RuleResult("R13.3", "`contains` is `in` with the operands swapped", floor=1)
    fn = ctx.repo.require_func("JSONPathEnvironment.compare")
    params = [a.arg for a in fn.node.args.args]
    left, opname, right = params[1], params[2], params[3]
    br = _branches(ctx)
    if br is None:
        from .c02 import run_compare

        grid = [None, True, 0, 1, 2, "a", "ab", "", (), (1,), (1, 2), ("a",), {}, {"a": 1}, {"1": 0}]
        diff = next(((a, b) for a in grid for b in grid if run_compare(ctx, "R13.3", a, "contains", b) != run_compare(ctx, "R13.3", b, "in", a)), None)
        if diff is None:
            rr.ok(fn.loc(), f"`a contains b` answers like `b in a` on {len(grid) ** 2} pairs of operands (compare() executed abstractly)")
        else:
            rr.bad(fn, fn.node, f"`{diff[0]!r} contains {diff[1]!r}` and `{diff[1]!r} in {diff[0]!r}` differ: `contains` is not `in` with the operands swapped",
                   construct=f"contains vs in: {diff[0]!r}, {diff[1]!r}")
        return rr
    if "in" not in br or "contains" not in br:
        rr.bad(fn, fn.node, "compare() lacks a branch for `in` or `contains`", construct="in/contains branches")
        return rr
    swapped = _Swap(left, right).visit(copy.deepcopy(br["in"][1]))
    a = ast.unparse(swapped)
    b = ast.unparse(br["contains"][1])
    if a == b:
        rr.ok(fn.loc(br["contains"][0]), f"`a contains b` is evaluated as `b in a`: {b[:80]}")
    else:
        rr.bad(fn, br["contains"][0], "the `contains` branch is not the `in` branch with the operands swapped: "
               f"`{b[:80]}` vs swapped `{a[:80]}`", construct=f"contains: {b[:100]}")
    return rr


def r13_4(ctx: Ctx) -> RuleResult:
    rr = RuleResult("R13.4", "`=~` is a full match and regex flags are compiled in", floor=2)
    fn = ctx.repo.require_func("JSONPathEnvironment.compare")
    br = _branches(ctx)
    if br is None:
        from .c02 import run_compare

        cases = [("abc", "a.c", 0, True), ("xabcx", "a.c", 0, False), ("abcx", "a.c", 0, False), ("xabc", "a.c", 0, False), ("ABC", "a.c", re.I, True), ("ABC", "a.c", 0, False),
                 ("a\nc", "a.c", re.S, True), ("a\nc", "a.c", 0, False), (5, "5", 0, False)]
        from sa.peval import UNKNOWN as _UNK4

        results4 = [(t, pat, fl, want, run_compare(ctx, "R13.4", t, "=~", re.compile(pat, fl))) for t, pat, fl, want in cases]
        if any(got is _UNK4 for *_x, got in results4):
            raise AnalysisError("R13.4: what compare() answers for `=~` cannot be determined")
        wrong = [(t, pat, fl, got) for t, pat, fl, want, got in results4 if got is not want]
        if not wrong:
            rr.ok(fn.loc(), "`=~` is a full match that honours the flags of the compiled pattern (compare() executed abstractly on 9 cases)")
        else:
            t, pat, fl, got = wrong[0]
            rr.bad(fn, fn.node, f"`{t!r} =~ /{pat}/` (flags {fl}) evaluates to {got}: `=~` must be a full match honouring the flags", construct=f"=~: {t!r} against /{pat}/")
        br = {"=~": None}
    if "=~" not in br:
        rr.bad(fn, fn.node, "compare() has no branch for `=~`", construct="no branch for =~")
    elif br["=~"] is not None:
        prims = [callee_name(c) for c in calls(br["=~"][1]) if callee_name(c) in ("fullmatch", "match", "search", "findall")]
        if prims == ["fullmatch"]:
            rr.ok(fn.loc(br["=~"][0]), "`=~` uses Pattern.fullmatch")
        else:
            rr.bad(fn, br["=~"][0], f"`=~` must be a full match (found {prims})", construct=f"=~: {short(br['=~'][1])}")
    pr = ctx.repo.require_func("Parser.parse_regex")
    comp = [c for c in calls(pr.node, "compile")]
    if len(comp) != 1 or len(comp[0].args) < 2:
        rr.bad(pr, pr.node, "parse_regex must compile the pattern together with its flags", construct="re.compile(pattern, flags)")
        return rr
    flagvar = path_of(comp[0].args[1])
    ored = False
    for n in ast.walk(pr.node):
        v = None
        if isinstance(n, ast.AugAssign) and isinstance(n.op, ast.BitOr) and path_of(n.target) == flagvar:
            v = n.value
        elif (
            isinstance(n, ast.Assign) and len(n.targets) == 1 and path_of(n.targets[0]) == flagvar
            and isinstance(n.value, ast.BinOp) and isinstance(n.value.op, ast.BitOr)
        ):
            # flags = flags | X  (or X | flags)
            sides = [n.value.left, n.value.right]
            others = [x for x in sides if path_of(x) != flagvar]
            if len(others) == 1:
                v = others[0]
        if isinstance(v, ast.Subscript) and "RE_FLAG_MAP" in ast.unparse(v.value):
            ored = True
    # what parse_regex hands back is the literal compiled from *this* token's pattern and flags, on every path
    from .common import expand_locals

    for r in [n for n in ast.walk(pr.node) if isinstance(n, ast.Return) and n.value is not None]:
        e = expand_locals(pr.node, r.value)
        inner = None
        if isinstance(e, ast.Call) and callee_name(e) == "RegexLiteral":
            inner = kw(e, "value") or (e.args[0] if e.args else None)
        if isinstance(inner, ast.Call) and callee_name(inner) == "compile" and ast.dump(inner) == ast.dump(expand_locals(pr.node, comp[0])):
            rr.ok(pr.loc(r), "parse_regex returns RegexLiteral(re.compile(pattern, flags)) of this token")
        else:
            rr.bad(pr, r, f"parse_regex returns `{short(r.value)}`, which is not always the literal compiled from this token's "
                   "pattern and flags (a literal remembered from an earlier token with the same pattern carries that token's flags)",
                   construct=f"parse_regex returns {short(r.value)}")
    if ored:
        rr.ok(pr.loc(comp[0]), "every flag letter is OR-ed through RE_FLAG_MAP into re.compile")
    else:
        rr.bad(pr, comp[0], "the regex flags are not OR-ed into the compiled pattern", construct=short(comp[0]))
    return rr


def r13_5(ctx: Ctx) -> RuleResult:
    rr = RuleResult("R13.5", "keys selector: objects only, value is the member name", floor=1)
    for fn, call, subj, ks, murky in site_kinds(ctx):
        if class_of(fn) != "KeysSelector":
            continue
        if ks is None or not (ks <= {OBJECT}):
            rr.bad(fn, call, f"the keys selector builds matches from kinds {sorted(ks or [])}; it must yield nothing "
                   "for values that are not objects", construct="keys selector kinds")
            continue
        from .c03 import _loop_binding
        from sa.flow import parent_map

        parents = parent_map(fn.node)
        cur: Optional[ast.AST] = call
        loop = None
        while cur is not None:
            cur = parents.get(id(cur))
            if isinstance(cur, (ast.For, ast.AsyncFor)):
                loop = cur
                break
        ok = False
        if loop is not None:
            it = loop.iter
            keyvar = None
            if isinstance(it, ast.Call) and callee_name(it) == "enumerate" and it.args:
                inner = it.args[0]
                if isinstance(inner, ast.Call) and callee_name(inner) == "keys" and path_of(inner.func.value) == subj:  # type: ignore[union-attr]
                    if isinstance(loop.target, ast.Tuple):
                        keyvar = path_of(loop.target.elts[1])
            elif isinstance(it, ast.Call) and callee_name(it) == "keys" and path_of(it.func.value) == subj:  # type: ignore[union-attr]
                keyvar = path_of(loop.target)
            elif path_of(it) == subj:
                keyvar = path_of(loop.target)
            if keyvar and path_of(kw(call, "obj")) == keyvar:
                ok = True
        if ok:
            rr.ok(fn.loc(call), f"{fn.qualname}: iterates {subj}.keys() in order, obj is the key")
        else:
            rr.bad(fn, call, "the keys selector must yield each member name of the object, in order, as the value",
                   construct=f"obj={short(kw(call, 'obj'))}")
    return rr


def r13_6(ctx: Ctx, rule: str = "R13.6") -> RuleResult:
    # floor: two twins + first operand + at least one construction for the further operands + nested root path
    # (the union and the intersection branch may share one construction)
    rr = RuleResult(rule, "fake root wraps the document in both twins and is detected for every sub-path", floor=5)
    jp = ctx.repo.require_class("jsonpath.path.JSONPath")
    for name in ("finditer", "finditer_async"):
        fn = jp.methods.get(name)
        if fn is None:
            raise AnalysisError(f"JSONPath.{name} not found")
        objs = [kw(c, "obj") for c in calls(fn.node) if callee_name(c) in ("JSONPathMatch", "match_class")]
        good = [
            o for o in objs
            if isinstance(o, ast.IfExp) and path_of(o.test) == "self.fake_root"
            and isinstance(o.body, ast.List) and len(o.body.elts) == 1
            and path_of(o.body.elts[0]) == path_of(o.orelse)
        ]
        if objs and len(good) == len(objs):
            rr.ok(fn.loc(), f"{fn.qualname}: root node is [data] if self.fake_root else data")
        else:
            rr.bad(fn, fn.node, "the root node must be the document wrapped in a one-element array exactly when "
                   "the query starts with the fake root identifier", construct=f"{name}: root obj")
    fake = token_const(ctx, "TOKEN_FAKE_ROOT")
    for qual in ("JSONPathEnvironment.compile", "Parser.parse_root_path"):
        fn = ctx.repo.require_func(qual)
        ctors = [c for c in calls(fn.node) if callee_name(c) == "JSONPath"]
        if not ctors:
            raise AnalysisError(f"R13.6: no JSONPath(...) construction in {qual}")
        if qual.endswith(".compile"):
            in_loop = {id(c) for lp in ast.walk(fn.node) if isinstance(lp, (ast.While, ast.For)) for c in calls(lp) if callee_name(c) == "JSONPath"}
            if not in_loop or len(in_loop) == len(ctors):
                raise AnalysisError("R13.6: compile() no longer builds the first operand before and the further operands inside its loop")
        for c in ctors:
            fr = kw(c, "fake_root")
            ok = False
            if fr is not None:
                expr: Optional[ast.expr] = fr
                if isinstance(fr, ast.Name):
                    # the assignment that precedes the construction in block order; no token may be
                    # consumed between the two
                    from .common import preceding_def

                    pd = preceding_def(fn.node, fr.id, c)
                    expr = pd[0].value if pd is not None else None
                    if pd is not None and any(callee_name(x) in ("next_token", "next") for st in pd[1] for x in calls(st)):
                        expr = None
                if (
                    isinstance(expr, ast.Compare) and len(expr.ops) == 1 and isinstance(expr.ops[0], (ast.Eq, ast.Is))
                    and ((path_of(expr.left) or "").endswith(".kind") or (
                        # the kind of the token as it is consumed: `stream.next_token().kind == TOKEN_FAKE_ROOT`
                        isinstance(expr.left, ast.Attribute) and expr.left.attr == "kind" and isinstance(expr.left.value, ast.Call)
                        and callee_name(expr.left.value) in ("next_token", "next") and qual.endswith("parse_root_path")))
                ):
                    try:
                        v = ctx.folder.eval_in(expr.comparators[0], fn.module, fn.cls)
                    except NotConst:
                        v = None
                    ok = v == fake
            if ok:
                rr.ok(fn.loc(c), f"{fn.qualname}: JSONPath(fake_root=<identifier token is the fake root>)")
            else:
                rr.bad(fn, c, "a (sub-)query is constructed without recording whether it started with the fake "
                       "root identifier", construct=short(c, 120))
    return rr


def r13_7(ctx: Ctx) -> RuleResult:
    rr = RuleResult("R13.7", "the filter context reaches nested filters at any depth", floor=6)
    from .c02 import subquery_starts

    n = 0
    for cls in path_classes(ctx):
        for name in ("evaluate", "evaluate_async"):
            fn = path_method(ctx, cls, name)
            if fn is None:
                continue
            for st in subquery_starts(ctx, cls, fn):
                n += 1
                c = st["call"]
                if st["fc"] == f"{st['ctx']}.extra_context":
                    rr.ok(fn.loc(c), f"{fn.qualname}: {short(c, 70)} hands on context.extra_context")
                else:
                    rr.bad(fn, c, "a sub-query evaluated inside a filter drops the caller's filter context: a filter "
                           "nested in it (`$[?@.a[?@ == _.v]]`) sees an empty context",
                           construct=short(c, 100))
    if n < 6:
        raise AnalysisError(f"R13.7: only {n} sub-query evaluations found in filter path nodes (floor 6)")
    return rr


def _decoder_names():  # type: ignore[no-untyped-def]
    """`_decode_string_literal`, or what fills its role on this tree (sa/loader.py ANCHOR_ROLES)."""
    from sa.loader import ROLE_FILLERS

    return ("_decode_string_literal",) + tuple(v[1] for k, v in ROLE_FILLERS.items() if k == ("Parser", "_decode_string_literal"))


def r13_8(ctx: Ctx) -> RuleResult:
    rr = RuleResult("R13.8", "root-less queries and bare names build the standard selector", floor=4)
    parse = ctx.repo.require_func("Parser.parse")
    root, fake = token_const(ctx, "TOKEN_ROOT"), token_const(ctx, "TOKEN_FAKE_ROOT")
    ok = False
    for n in parse.node.body:
        if isinstance(n, ast.If) and not n.orelse and any(callee_name(c) == "next_token" for s in n.body for c in calls(s)):
            t = n.test
            if isinstance(t, ast.Compare) and (path_of(t.left) or "").endswith(".kind"):
                try:
                    v = ctx.folder.eval_in(t.comparators[0], parse.module, parse.cls)
                except NotConst:
                    v = None
                vals = set(v) if isinstance(v, (set, frozenset, tuple, list)) else {v}
                if root in vals and not any(isinstance(x, ast.Raise) for s in n.body for x in ast.walk(s)):
                    ok = True
    if ok:
        rr.ok(parse.loc(), "Parser.parse: the root identifier is consumed if present and not required")
    else:
        rr.bad(parse, parse.node, "the leading root identifier must be optional", construct="optional root")
    bare = token_const(ctx, "TOKEN_BARE_PROPERTY")
    prop = token_const(ctx, "TOKEN_PROPERTY")
    ctx.repo.require_func("Parser.parse_selector_list")
    ctx.repo.require_func("Parser.parse_path")
    parser_cls = ctx.repo.require_class("Parser")
    for fn in sorted(parser_cls.methods.values(), key=lambda f: f.node.lineno):
        for c in calls(fn.node, "PropertySelector"):
            name = kw(c, "name")
            kinds = ctx.tokflow.kinds_at(fn, c, "stream.current")
            good = False
            if name is not None and kinds is not None:
                if kinds <= {bare, prop} and path_of(name) == "stream.current.value":
                    good = True
                elif isinstance(name, ast.Call) and callee_name(name) in _decoder_names() and name.args and path_of(name.args[0]) == "stream.current":
                    good = True
            if good:
                rr.ok(fn.loc(c), f"{fn.qualname}: PropertySelector(name={short(name)}) for tokens {sorted(kinds or [])}")
            else:
                rr.bad(fn, c, "a name selector must be built from the token's own (decoded) text",
                       construct=short(c, 120))
    return rr


def r13_9(ctx: Ctx) -> RuleResult:
    """`and`, `or`, `not` are documented spellings of `&&`, `||`, `!`.  They stay operators when a parenthesis
    follows directly: with the reconstructed master pattern, `not(`, `and(`, `or(` must lex like `!(`, `&&(`, `||(`
    (the function rule `name(` must not take them)."""
    rr = RuleResult("R13.9", "word operators directly followed by a parenthesis stay operators", floor=3)
    lex = ctx.lexer
    where = lex.compile_fn.loc()
    for word, sym in (("and", "&&"), ("or", "||"), ("not", "!")):
        a = [k for _r, k, _t in lex.classify(f"@.a {word}(@.b)")]
        b = [k for _r, k, _t in lex.classify(f"@.a {sym}(@.b)")]
        if a == b:
            rr.ok(where, f"`{word}(` lexes like `{sym}(`")
        else:
            rr.bad(lex.compile_fn, lex.compile_fn.node, f"`{word}(` is lexed as {a} but `{sym}(` as {b}: `$[?{word}(@.a)]` "
                   f"{'is a call of an undefined function' if 'FUNCTION' in ' '.join(a) else 'does not mean'} `$[?{sym}(@.a)]`",
                   construct=f"`{word}(` is not `{sym}(`")
    return rr


def r13_10(ctx: Ctx) -> RuleResult:
    """`_` reads the caller's mapping at every nesting depth and through both twins: every evaluation context and every
    child match carries its parent's filter context (= R2.3)."""
    from .c02 import r2_3

    return r2_3(ctx, "R13.10")


def r13_11(ctx: Ctx) -> RuleResult:
    """`#` is the member name or the array index of the candidate - also when that is 0 or the empty name.
    CurrentKey.evaluate is executed abstractly for the keys 0, 1, "", "a" (the key itself must come back) and for a
    context without a key (anything but a key)."""
    from sa.peval import UNKNOWN

    from .model import RAISES
    from .model import MObj
    from .model import Model

    rr = RuleResult("R13.11", "the current-key identifier is the key itself, 0 and the empty name included", floor=4)
    cls = ctx.repo.require_class("jsonpath.filter.CurrentKey")
    for mname in ("evaluate", "evaluate_async"):
        fn = ctx.repo.find_method(cls, mname)
        if fn is None:
            raise AnalysisError(f"R13.11: CurrentKey.{mname} not found")
        for key in (0, 1, "", "a"):
            model = Model(ctx, "R13.11")
            model.whole_bodies = True
            node = MObj(model, "CurrentKey", {"volatile": True})
            context = MObj(model, "FilterContext", {"current_key": key, "current": UNKNOWN, "root": UNKNOWN, "extra_context": UNKNOWN, "env": UNKNOWN})
            got = model.call(node, mname, [context])
            if got is UNKNOWN:
                raise AnalysisError(f"R13.11: the value of `#` for the key {key!r} cannot be determined in CurrentKey.{mname}")
            if got is not RAISES and got == key and type(got) is type(key):
                rr.ok(fn.loc(), f"CurrentKey.{mname}: key {key!r} -> {key!r}")
            else:
                rr.bad(fn, fn.node, f"for a candidate whose key is {key!r} the current-key identifier evaluates to {got!r} instead of the key: "
                       + ("the first element of an array / the member with the empty name has no `#`" if not key else "the wrong key"),
                       construct=f"CurrentKey.{mname}: key {key!r} -> {got!r}")
    return rr


def r13_12(ctx: Ctx) -> RuleResult:
    """Bare names in brackets: `[name]` is `['name']`.  `Parser.parse_selector_list` is executed abstractly on both
    spellings (tokens from the lexer model) for names over every class of character the documented name syntax
    admits - ASCII letters, digits, `_` and `-` after the first character, non-ASCII characters in and beyond the
    Basic Multilingual Plane in any position; both must construct the same single name selector.  (Names that start
    with `_`, the filter-context identifier, are the known finding of R1.12 and are not sampled here.)"""
    from .model import RAISES
    from .model import parse_bracketed

    names = ["a", "Z9", "abc", "a_b", "x-y", "a1-", "\u00e9", "\u00e9t\u00e9", "a\u00e9", "\ud7ff\ue000", "\U0001f600", "a\U0001f600", "\U0001f600a", "a\U0010ffffz",
             "b\uffff", "k-\U0001f600-9",
             # a name that starts with a keyword is not the keyword, whatever continues it
             "in-stock", "or-else", "not-ok", "true-north", "null-value", "nil\u2603", "and\u20ac", "contains-x", "input", "order", "android", "Trueish"]
    rr = RuleResult("R13.12", "a bare name in brackets is the quoted name", floor=len(names) * 2)
    fn = ctx.repo.require_func("Parser.parse_selector_list")
    for name in names:
        quoted = parse_bracketed(ctx, "R13.12", f"['{name}']")
        if quoted is None or quoted is RAISES or len(quoted) != 1 or quoted[0][1].get("name") != name:  # type: ignore[arg-type,index,union-attr]
            raise AnalysisError(f"R13.12: the quoted selection ['{name}'] is not parsed into one name selector ({quoted})")
        for text in (f"[{name}]", f"[ {name} , {name}]"):
            bare = parse_bracketed(ctx, "R13.12", text)
            count = 1 if "," not in text else 2
            if bare is None:
                raise AnalysisError(f"R13.12: the abstract execution of parse_selector_list on {text} cannot be followed")
            if bare is RAISES:
                rr.bad(fn, fn.node, f"the selection {text} is refused although ['{name}'] is accepted: the bare spelling does not reach every name "
                       "(the lexer cuts the name or reads part of it as another token)", construct=f"bare name {name!r} refused")
            elif len(bare) == count and all(c == "PropertySelector" and k.get("name") == name for c, k in bare):  # type: ignore[union-attr]
                rr.ok(fn.loc(), f"{text} is {count} x ['{name}']")
            else:
                rr.bad(fn, fn.node, f"the selection {text} is parsed into {bare} while ['{name}'] is the name {name!r}: a bare name means something "
                       "else than its quoted form", construct=f"bare name {name!r} -> {[(c, k.get('name')) for c, k in bare]}")  # type: ignore[union-attr]
    return rr


MEMBERSHIP_SAMPLES = (
    # (item, container, contained?) - arrays by value, strings by substring, objects by member name
    (1, (1, 2), True), (3, (1, 2), False), ("a", ("a", "b"), True), ("ab", ("a", "b"), False), ((1,), ((1,), 2), True), (None, (None,), True), (None, (1,), False),
    ("b", "abc", True), ("bc", "abc", True), ("abc", "abc", True), ("", "abc", True), ("ac", "abc", False), ("abcd", "abc", False), ("x", "", False),
    ("\u00e9t", "\u00e9t\u00e9", True),
    ("a", {"a": 1}, True), ("b", {"a": 1}, False), ("ab", {"ab": None}, True), ("a", {"ab": 1}, False), ("", {"": 0}, True), ("a", {}, False),
)


def r13_13(ctx: Ctx) -> RuleResult:
    """`in` and `contains` test membership in arrays (by value), strings (substrings) and objects (member names):
    `JSONPathEnvironment.compare` is executed abstractly on MEMBERSHIP_SAMPLES, `x in c` and `c contains x` both."""
    from sa.peval import UNKNOWN as _UNK

    from .c02 import run_compare

    rr = RuleResult("R13.13", "`in` / `contains` answer membership in arrays, strings and object keys (covering samples)", floor=len(MEMBERSHIP_SAMPLES) * 2)
    fn = ctx.repo.require_func("JSONPathEnvironment.compare")
    for item, box, want in MEMBERSHIP_SAMPLES:
        for a, op, b in ((item, "in", box), (box, "contains", item)):
            got = run_compare(ctx, "R13.13", a, op, b)
            if got is _UNK:
                raise AnalysisError(f"R13.13: what compare() answers for {a!r} {op} {b!r} cannot be determined")
            if got is want:
                rr.ok(fn.loc(), f"{a!r} {op} {b!r} is {want}")
            else:
                rr.bad(fn, fn.node, f"`{a!r} {op} {b!r}` is answered {'with an exception' if got not in (True, False) else got}; "
                       f"{'the item is' if want else 'the item is not'} {'a substring of the string' if isinstance(box, str) else ('a member name of the object' if isinstance(box, dict) else 'an element of the array')}",
                       construct=f"{a!r} {op} {b!r} -> {got if got in (True, False) else 'raises'}")
    return rr


RULES = [r13_1, r13_2, r13_3, r13_4, r13_5, r13_6, r13_7, r13_8, r13_9, r13_10, r13_11, r13_12, r13_13]
