"""C08 - the async API returns exactly what the sync API returns.

R8.1 every hand-duplicated `m` / `m_async` pair is the same algorithm up to
     awaiting (normal forms equal), with the accepted idioms checked.
R8.2 the kind sets at twin match-construction sites are equal (cross-check
     through the independent kinds engine).
R8.3 no shared mutable evaluation state: see C09 (R9.1), re-used here.
"""

from __future__ import annotations

import ast
from typing import List
from typing import Optional
from typing import Tuple

from sa import twins
from sa.loader import AnalysisError
from sa.loader import FuncInfo
from sa.report import RuleResult

from . import Ctx
from .c01 import site_kinds
from .common import class_of

TWIN_BASES = ("resolve", "evaluate", "findall", "finditer")


def twin_pairs(ctx: Ctx) -> List[Tuple[FuncInfo, FuncInfo]]:
    out = []
    for cls in ctx.repo.classes.values():
        for name, m in cls.methods.items():
            t = cls.methods.get(name + "_async")
            if t is not None:
                out.append((m, t))
    # module-level helper pairs (e.g. _intersect / _intersect_async)
    for mod in ctx.repo.modules.values():
        for name, f in mod.functions.items():
            t = mod.functions.get(name + "_async")
            if t is not None:
                out.append((f, t))
    return out


def _params(fn: ast.AST) -> List[str]:
    a = fn.args  # type: ignore[attr-defined]
    return [x.arg for x in a.posonlyargs + a.args + a.kwonlyargs if x.arg not in ("self", "cls")]


def _is_delegation(body: List[ast.stmt], target: str, params: List[str]) -> bool:
    """`return self.<target>(<params in order>)`"""
    if len(body) != 1 or not isinstance(body[0], ast.Return):
        return False
    c = body[0].value
    if isinstance(c, ast.Await):
        c = c.value
    if not isinstance(c, ast.Call):
        return False
    f = c.func
    if not (
        isinstance(f, ast.Attribute)
        and isinstance(f.value, ast.Name)
        and f.value.id == "self"
        and f.attr == target
    ):
        return False
    pos = [a.id for a in c.args if isinstance(a, ast.Name)]
    if len(pos) != len(c.args):
        return False
    kws = {k.arg: k.value for k in c.keywords}
    if any(not (isinstance(v, ast.Name) and v.id == k) for k, v in kws.items()):
        return False
    return pos + [p for p in params if p in kws] == params


def _strip_hook(res: twins.NormResult) -> Optional[str]:
    """Drop a leading `if hasattr(x, "__m_async__"): return x.__m_async__(...)`."""
    if not res.body:
        return None
    s = res.body[0]
    if not (isinstance(s, ast.If) and not s.orelse and len(s.body) == 1):
        return None
    t = s.test
    if not (
        isinstance(t, ast.Call)
        and isinstance(t.func, ast.Name)
        and t.func.id == "hasattr"
        and len(t.args) == 2
        and isinstance(t.args[0], ast.Name)
        and isinstance(t.args[1], ast.Constant)
        and isinstance(t.args[1].value, str)
        and t.args[1].value.startswith("__")
        and t.args[1].value.endswith("_async__")
    ):
        return None
    r = s.body[0]
    if not (isinstance(r, ast.Return) and isinstance(r.value, ast.Call)):
        return None
    f = r.value.func
    if not (
        isinstance(f, ast.Attribute)
        and isinstance(f.value, ast.Name)
        and f.value.id == t.args[0].id
        and f.attr == t.args[1].value
    ):
        return None
    res.body = res.body[1:]
    return t.args[1].value


def _body_no_docstring(fn: FuncInfo) -> List[ast.stmt]:
    return twins._strip_docstring(fn.node.body)


def narrowing_ok(ctx: Ctx, fn: FuncInfo, try_node: ast.Try, inner: ast.If) -> Optional[str]:
    """The statements moved out of the `try` must not raise a caught class."""
    caught: List[str] = []
    for h in try_node.handlers:
        if h.type is None:
            return "bare except"
        names = h.type.elts if isinstance(h.type, ast.Tuple) else [h.type]
        for n in names:
            d = ctx.repo.dotted(n)
            if d is None:
                return "unresolvable handler class"
            caught.append(d.split(".")[-1])
    for node in inner.body:
        for sub in ast.walk(node):
            if isinstance(sub, ast.Raise):
                return "the guarded block raises"
    try:
        esc = ctx.escapes
    except Exception:  # escapes engine unavailable: syntactic check only
        return None
    may = esc.block_escapes(fn, inner.body)
    for c in may:
        for h in caught:
            if ctx.repo.is_subclass(c, h):
                return f"the guarded block may raise {c}, which the handler catches"
    return None


def r8_1(ctx: Ctx) -> RuleResult:
    rr = RuleResult("R8.1", "async twin equals sync twin up to awaiting", floor=28)
    # (1) no half-defined twin
    for cls in ctx.repo.classes.values():
        for base in TWIN_BASES:
            has_s = base in cls.methods
            has_a = base + "_async" in cls.methods
            if has_s != has_a:
                fn = cls.methods.get(base) or cls.methods.get(base + "_async")
                other = base + "_async" if has_s else base
                if ctx.repo.find_method(cls, other) is None:
                    continue  # not a member of a twin family (e.g. JSONPointer.resolve)
                # abstract declarations come in pairs too; a lone definition means
                # the other half is inherited and can drift
                rr.bad(fn, fn.node if fn else None,
                       f"class {cls.name} defines {'the sync' if has_s else 'the async'} "
                       f"half of `{base}` only; the other half is inherited and no longer "
                       "its twin",
                       construct=f"{cls.name}.{base} twin missing")
    # (2) normal forms
    twins.register_one_yield(f for f in ctx.repo.functions.values() if f.parent is None)
    for s, a in twin_pairs(ctx):
        ns = twins.normalise(s.node)
        na = twins.normalise(a.node)
        for res, fn in ((ns, s), (na, a)):
            for kind, t, inner in res.obligations:
                # obligations refer to deep-copied nodes; re-locate by line
                orig_try = [
                    n for n in ast.walk(fn.node)
                    if isinstance(n, ast.Try) and n.lineno == getattr(t, "lineno", -1)
                ]
                if not orig_try:
                    raise AnalysisError(f"R8.1: cannot re-locate narrowed try in {fn.qualname}")
                o = orig_try[0]
                if not (len(o.body) == 1 and isinstance(o.body[0], ast.If)):
                    raise AnalysisError(f"R8.1: narrowed try changed shape in {fn.qualname}")
                why = narrowing_ok(ctx, fn, o, o.body[0])
                if why:
                    raise AnalysisError(
                        f"R8.1: try-narrowing in {fn.qualname} not justified: {why}"
                    )
        label = f"{class_of(s)}.{s.name} ~ {a.name}"
        if twins.equal(ns, na):
            rr.ok(s.loc(), label, idioms=sorted(set(ns.idioms + na.idioms)))
            continue
        # accepted idiom: delegation of one twin to the other
        if _is_delegation(_body_no_docstring(a), s.name, _params(a.node)):
            rr.ok(a.loc(), label + " (async delegates to sync with the same arguments)")
            continue
        if _is_delegation(_body_no_docstring(s), a.name, _params(s.node)):
            rr.ok(s.loc(), label + " (sync delegates to async)")
            continue
        # accepted idiom: async item-getter hook in front of the sync body
        na2 = twins.normalise(a.node)
        hook = _strip_hook(na2)
        if hook and twins.equal(ns, na2):
            rr.ok(a.loc(), label + f" (async = {hook} hook + sync body)")
            continue
        da, db = twins.first_diff(ns, na)
        rr.bad(
            a,
            a.node,
            f"async twin differs from {s.qualname}: sync has `{da}` where async has `{db}`",
            construct=f"sync: {da} | async: {db}",
            witness=twins.diff_text(ns, na, s.qualname, a.qualname).replace("\n", " ; ")[:600],
        )
    return rr


def r8_2(ctx: Ctx) -> RuleResult:
    rr = RuleResult("R8.2", "twin match-construction sites admit the same kinds", floor=5)
    groups = {}
    for fn, call, subj, ks, murky in site_kinds(ctx):
        base = fn.name[: -len("_async")] if fn.name.endswith("_async") else fn.name
        key = (class_of(fn), base)
        groups.setdefault(key, {}).setdefault(fn.name, []).append((fn, call, ks))
    for (cls, base), by in sorted(groups.items()):
        if len(by) == 1:
            continue  # helper shared by both twins
        s = by.get(base)
        a = by.get(base + "_async")
        if s is None or a is None:
            continue
        ss = [sorted(k or []) for _, _, k in s]
        aa = [sorted(k or []) for _, _, k in a]
        if ss == aa:
            rr.ok(s[0][0].loc(), f"{cls}.{base}: sites {ss} in both twins")
        else:
            fn, call, _ = a[0]
            rr.bad(fn, call,
                   f"match-construction sites of {cls}.{base} admit kinds {ss} in the sync "
                   f"twin but {aa} in the async twin",
                   construct=f"{cls}.{base}: sync {ss} async {aa}")
    return rr


def r8_3(ctx: Ctx) -> RuleResult:
    """No shared mutable evaluation state (needed for "several evaluations
    awaited concurrently"): the write-effect rule of C09, restricted to findings."""
    from .c09 import r9_1

    rr = r9_1(ctx)
    rr.rule = "R8.3"
    rr.title = "no shared mutable evaluation state (R9.1)"
    for f in rr.findings:
        f.rule = "R8.3"
    return rr


def r8_4(ctx: Ctx) -> RuleResult:
    """Sync and async resolvers of the four selectors construct the same matches, the RFC's, on covering small documents (= R1.14)."""
    from .c01 import r1_14

    return r1_14(ctx, "R8.4")


RULES = [r8_1, r8_2, r8_3, r8_4]
