"""Per-property rule modules.  rules.cNN exposes RULES (and optionally THOROUGH)."""

from __future__ import annotations

import importlib
from typing import Any
from typing import Callable
from typing import Dict
from typing import List

from sa.consteval import Folder
from sa.loader import Repo
from sa.report import RuleResult


class Ctx:
    """Shared, lazily computed analysis artefacts for one run."""

    def __init__(self, repo: Repo | None = None) -> None:
        self.repo = repo or Repo()
        from sa import twins as _twins

        _twins.register_helpers(self.repo)
        self.folder = Folder(self.repo)
        self._cache: Dict[str, Any] = {}

    def cached(self, key: str, make: Callable[[], Any]) -> Any:
        if key not in self._cache:
            self._cache[key] = make()
        return self._cache[key]

    @property
    def callgraph(self):  # type: ignore[no-untyped-def]
        from sa.callgraph import CallGraph

        return self.cached("callgraph", lambda: CallGraph(self.repo, self.folder))

    @property
    def partial(self):  # type: ignore[no-untyped-def]
        from sa.partial import PartialOps

        return self.cached("partial", lambda: PartialOps(self.repo, self.callgraph, self.folder))

    @property
    def escapes(self):  # type: ignore[no-untyped-def]
        from sa.escapes import EscapeAnalysis

        return self.cached(
            "escapes",
            lambda: EscapeAnalysis(
                self.repo, self.callgraph, self.folder, implicit=self.partial.undischarged
            ),
        )

    @property
    def lexer(self):  # type: ignore[no-untyped-def]
        return self.partial.lexer

    @property
    def tokflow(self):  # type: ignore[no-untyped-def]
        return self.partial.tokflow


Rule = Callable[[Ctx], RuleResult]

ALL_PROPERTIES = [f"C{i:02d}" for i in range(1, 21)]


def rules_for(prop: str) -> List[Rule]:
    try:
        mod = importlib.import_module(f"rules.{prop.lower()}")
    except ModuleNotFoundError:
        return []
    return list(getattr(mod, "RULES", []))


def thorough_rules_for(prop: str) -> List[Rule]:
    try:
        mod = importlib.import_module(f"rules.{prop.lower()}")
    except ModuleNotFoundError:
        return []
    return list(getattr(mod, "THOROUGH", []))
