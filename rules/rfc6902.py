"""RFC 6902 (JSON Patch) and RFC 6901 (JSON Pointer) written down from the text of the RFCs, for the rules that
compare the abstract execution of the library's patch code on covering samples with what the RFC defines.

This is the *expected side* of those rules: a few dozen lines that follow section 4 of RFC 6902 sentence by sentence.
It shares no code with the library and is not derived from it.
"""

from __future__ import annotations

import copy
import re
from typing import Any
from typing import List
from typing import Tuple


class Refused(Exception):
    """The RFC says the operation (and with it the patch) is an error; `kind` is "test" for a failed test."""

    def __init__(self, kind: str, why: str) -> None:
        super().__init__(why)
        self.kind = kind


_INDEX = re.compile(r"(?:0|[1-9][0-9]*)\Z")


def tokens(pointer: str) -> List[str]:
    """RFC 6901 section 3/4: reference tokens, `~1` then `~0` unescaped."""
    if pointer == "":
        return []
    if not pointer.startswith("/"):
        raise Refused("error", "a pointer is empty or starts with /")
    return [t.replace("~1", "/").replace("~0", "~") for t in pointer[1:].split("/")]


def jeq(a: Any, b: Any) -> bool:
    """RFC 6902 4.6: equal JSON values - same type; numbers numerically; arrays pairwise; objects by member."""
    if isinstance(a, bool) or isinstance(b, bool):
        return isinstance(a, bool) and isinstance(b, bool) and a == b
    if isinstance(a, (int, float)) and isinstance(b, (int, float)):
        return a == b
    if isinstance(a, str) and isinstance(b, str):
        return a == b
    if a is None or b is None:
        return a is None and b is None
    if isinstance(a, list) and isinstance(b, list):
        return len(a) == len(b) and all(jeq(x, y) for x, y in zip(a, b))
    if isinstance(a, dict) and isinstance(b, dict):
        return set(a) == set(b) and all(jeq(a[k], b[k]) for k in a)
    return False


def _step(node: Any, tok: str) -> Any:
    if isinstance(node, dict):
        if tok not in node:
            raise Refused("error", f"no member {tok!r}")
        return node[tok]
    if isinstance(node, list):
        if not _INDEX.match(tok) or int(tok) >= len(node):
            raise Refused("error", f"{tok!r} is not an index of the array")
        return node[int(tok)]
    raise Refused("error", "a scalar has no children")


def _get(doc: Any, toks: List[str]) -> Any:
    node = doc
    for t in toks:
        node = _step(node, t)
    return node


def _add(doc: Any, toks: List[str], value: Any) -> Any:
    if not toks:
        return value  # the whole document is replaced
    parent = _get(doc, toks[:-1])
    last = toks[-1]
    if isinstance(parent, dict):
        parent[last] = value
    elif isinstance(parent, list):
        if last == "-":
            parent.append(value)
        elif _INDEX.match(last) and int(last) <= len(parent):
            parent.insert(int(last), value)
        else:
            raise Refused("error", "the index is greater than the number of elements (or is not an index)")
    else:
        raise Refused("error", "the target location is inside a scalar")
    return doc


def _remove(doc: Any, toks: List[str]) -> Tuple[Any, Any]:
    if not toks:
        raise Refused("error", "(removal of the root is not sampled)")
    parent = _get(doc, toks[:-1])
    gone = _step(parent, toks[-1])  # "the target location MUST exist"
    if isinstance(parent, dict):
        del parent[toks[-1]]
    else:
        del parent[int(toks[-1])]
    return doc, gone


def apply_op(doc: Any, op: dict) -> Any:
    """The document after one operation; raises Refused where section 4 says error."""
    name = op["op"]
    path = tokens(op["path"])
    if name == "add":
        return _add(doc, path, copy.deepcopy(op["value"]))
    if name == "remove":
        return _remove(doc, path)[0]
    if name == "replace":
        _get(doc, path)  # "the target location MUST exist"
        if not path:
            return copy.deepcopy(op["value"])
        doc, _ = _remove(doc, path)
        return _add(doc, path, copy.deepcopy(op["value"]))
    if name == "move":
        src = tokens(op["from"])
        if len(path) > len(src) and path[:len(src)] == src:
            raise Refused("error", 'the "from" location MUST NOT be a proper prefix of the "path" location')
        _get(doc, src)
        if src == path:
            return doc
        doc, value = _remove(doc, src)
        return _add(doc, path, value)
    if name == "copy":
        return _add(doc, path, copy.deepcopy(_get(doc, tokens(op["from"]))))
    if name == "test":
        try:
            target = _get(doc, path)
        except Refused as err:
            # a test of a location that does not exist is not successful; whether that is "a failed test" or
            # another error the RFC does not say
            raise Refused("test-or-error", str(err)) from None
        if not jeq(target, op["value"]):
            raise Refused("test", "the values are not equal")
        return doc
    # the two documented extensions of the library, as its documentation words them
    if name == "addne":  # add, but an existing object member is left untouched
        parent = _get(doc, path[:-1]) if path else None
        if isinstance(parent, dict) and path[-1] in parent:
            return doc
        return _add(doc, path, copy.deepcopy(op["value"]))
    if name == "addap":  # add, but append when the array index cannot be resolved
        parent = _get(doc, path[:-1]) if path else None
        if isinstance(parent, list) and not (path[-1] == "-" or (_INDEX.match(path[-1]) and int(path[-1]) <= len(parent))):
            parent.append(copy.deepcopy(op["value"]))
            return doc
        return _add(doc, path, copy.deepcopy(op["value"]))
    raise Refused("error", f"unknown operation {name!r}")


def apply_patch(doc: Any, ops: List[dict]) -> Any:
    doc = copy.deepcopy(doc)
    for op in ops:
        doc = apply_op(doc, op)
    return doc


def has_cycle(v: Any) -> bool:
    """Does a list / dict (transitively) contain itself?  (No JSON value does.)"""
    on_path = set()

    def walk(x: Any) -> bool:
        if not isinstance(x, (list, dict)):
            return False
        if id(x) in on_path:
            return True
        on_path.add(id(x))
        try:
            return any(walk(y) for y in (x.values() if isinstance(x, dict) else x))
        finally:
            on_path.discard(id(x))

    return walk(v)


def shares_structure(a: Any, b: Any) -> bool:
    """Is some list / dict reachable from `a` the very object reachable from `b`?"""
    seen = set()

    def collect(v: Any) -> None:
        if isinstance(v, (list, dict)) and id(v) not in seen:
            seen.add(id(v))
            for x in (v.values() if isinstance(v, dict) else v):
                collect(x)

    collect(a)
    done = set()

    def hit(v: Any) -> bool:
        if isinstance(v, (list, dict)):
            if id(v) in seen:
                return True
            if id(v) in done:
                return False
            done.add(id(v))
            return any(hit(x) for x in (v.values() if isinstance(v, dict) else v))
        return False

    return hit(b)
