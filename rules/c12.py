"""C12 - query iterator operations behave as list slicing (structural clauses).

R12.1 negative counts are refused with ValueError before the shared iterator
      is touched
R12.2 aliases are the operation they alias
R12.3 the views list the remaining matches in order
R12.4 only the documented rewrapping operations replace the shared iterator

NOT decided: the list-slicing law over chains of operations (it quantifies over
histories of a stateful iterator and over itertools/deque semantics).
"""

from __future__ import annotations

import ast
from typing import Dict
from typing import List
from typing import Set
from typing import Optional
from typing import Tuple

from sa.kinds import path_of
from sa.loader import AnalysisError
from sa.loader import FuncInfo
from sa.loader import short
from sa.report import RuleResult
from sa.twins import _strip_docstring

from . import Ctx
from .common import callee_name
from .common import calls
from .common import kw
from .common import must_flow

# stdlib constructors that validate a negative bound eagerly and consume nothing
# while doing so: (callee, position or keyword of the bound)
EAGER_VALIDATORS = {
    "islice": "itertools.islice(it, n) raises ValueError for a negative stop at construction",
    "tee": "itertools.tee(it, n) raises ValueError for n < 0 at construction",
    "deque": "collections.deque(it, maxlen=n) checks maxlen before consuming the iterable",
}
ALIASES = {"head": "limit", "first": "limit", "skip": "drop", "last": "tail", "one": "first_one"}


def _count_param(fn: FuncInfo) -> Optional[str]:
    for a in fn.node.args.args[1:]:
        if a.annotation is not None and ast.unparse(a.annotation) == "int":
            return a.arg
    return None


def r12_1(ctx: Ctx) -> RuleResult:
    rr = RuleResult("R12.1", "negative counts are refused before the shared iterator is touched", floor=9)
    q = ctx.repo.require_class("jsonpath.fluent_api.Query")
    for name, fn in sorted(q.methods.items()):
        if name.startswith("_"):
            continue
        n = _count_param(fn)
        if n is None:
            continue

        def refine(test: ast.expr, branch: bool, n=n) -> List[str]:
            if isinstance(test, ast.Compare) and len(test.ops) == 1 and path_of(test.left) == n:
                c = test.comparators[0]
                if isinstance(c, ast.Constant) and c.value == 0:
                    if isinstance(test.ops[0], ast.Lt) and not branch:
                        return ["nonneg@" + n]
                    if isinstance(test.ops[0], ast.GtE) and branch:
                        return ["nonneg@" + n]
            return []

        def expr_events(e: ast.expr, n=n) -> List[str]:
            # an eager stdlib validator applied with `n` as its bound refuses a negative n
            if isinstance(e, ast.Call) and callee_name(e) in EAGER_VALIDATORS:
                if any(path_of(a) == n for a in e.args[1:]) or any(path_of(k.value) == n for k in e.keywords):
                    return ["validated@" + n]
            # delegation to a sibling that takes the count
            if isinstance(e, ast.Call) and isinstance(e.func, ast.Attribute) and path_of(e.func.value) == "self":
                if [path_of(a) for a in e.args] == [n] and e.func.attr in q.methods and _count_param(q.methods[e.func.attr]):
                    return ["validated@" + n]
            return []

        flow = must_flow(fn.node, refine_events=refine, expr_events=expr_events)
        # raise under n < 0 must be a ValueError
        from sa.flow import parent_map

        parents = parent_map(fn.node)
        bad = []
        reads = [
            x for x in ast.walk(fn.node)
            if isinstance(x, ast.Attribute) and x.attr == "_it" and path_of(x.value) == "self" and isinstance(x.ctx, ast.Load)
        ]
        delegated = False
        body = _strip_docstring(fn.node.body)
        if len(body) == 1 and isinstance(body[0], ast.Return) and isinstance(body[0].value, ast.Call):
            c = body[0].value
            if isinstance(c.func, ast.Attribute) and path_of(c.func.value) == "self" and [path_of(a) for a in c.args] == [n]:
                delegated = True
        for r in reads:
            st = flow.at.get(id(r)) or frozenset()
            if "nonneg@" + n in st:
                continue
            par = parents.get(id(r))
            if isinstance(par, ast.Call) and callee_name(par) in EAGER_VALIDATORS and par.args and par.args[0] is r:
                bound_ok = any(path_of(a) == n for a in par.args[1:]) or any(path_of(k.value) == n for k in par.keywords)
                if bound_ok:
                    continue
            bad.append(r)
        if delegated and not reads:
            rr.ok(fn.loc(), f"{name}({n}): pure delegation")
        elif not bad:
            rr.ok(fn.loc(), f"{name}({n}): every use of the shared iterator follows the refusal of a negative count")
        else:
            rr.bad(fn, bad[0], f"`{name}` touches the shared iterator on a path on which a negative `{n}` has not "
                   "been refused", construct=f"{name}: self._it before the n < 0 check")
        # a negative count must be refused on every path that returns normally
        for kind, node, st in flow.exits:
            if kind not in ("return", "fall"):
                continue
            if "nonneg@" + n in st or "validated@" + n in st:
                continue
            rr.bad(fn, node if isinstance(node, ast.stmt) else fn.node,
                   f"`{name}` can return normally for a negative `{n}`: the count is neither tested nor handed "
                   "to a validating constructor on that path", construct=f"{name}: negative {n} accepted")
            break
        # the refusal is a ValueError
        for rs in [x for x in ast.walk(fn.node) if isinstance(x, ast.Raise)]:
            cls = ctx.escapes.exc_name(fn, rs.exc) if rs.exc is not None else None
            if cls != "ValueError":
                rr.bad(fn, rs, f"`{name}` must refuse a negative count with ValueError", construct=short(rs))
    return rr


def r12_2(ctx: Ctx) -> RuleResult:
    rr = RuleResult("R12.2", "aliases delegate to the operation they alias", floor=6)
    q = ctx.repo.require_class("jsonpath.fluent_api.Query")
    for alias, target in ALIASES.items():
        fn = q.methods.get(alias)
        if fn is None:
            rr.bad(None, None, f"Query.{alias} not found", construct=f"alias {alias}", file=q.module.relpath, qualname=q.qualname)
            continue
        params = [a.arg for a in fn.node.args.args[1:]]
        from .c11 import _shape_error
        from .c11 import _single_return

        c = _single_return(fn)
        if c is None:
            raise _shape_error("R12.2", fn)
        ok = False
        if isinstance(c, ast.Call):
            if (
                isinstance(c.func, ast.Attribute) and path_of(c.func.value) == "self" and c.func.attr == target
                and [path_of(a) for a in c.args] == params and not c.keywords
            ):
                ok = True
        if ok:
            rr.ok(fn.loc(), f"{alias}({', '.join(params)}) -> self.{target}({', '.join(params)})")
        else:
            rr.bad(fn, fn.node, f"`{alias}` must be `return self.{target}({', '.join(params)})`", construct=f"alias {alias}")
    lo = q.methods.get("last_one")
    if lo is None:
        raise AnalysisError("Query.last_one not found")
    tails = [c for c in calls(lo.node, "tail")]
    if len(tails) == 1 and len(tails[0].args) == 1 and isinstance(tails[0].args[0], ast.Constant) and tails[0].args[0].value == 1:
        rr.ok(lo.loc(), "last_one is built on tail(1)")
    else:
        rr.bad(lo, lo.node, "last_one must take the last match through tail(1)", construct="last_one on tail(1)")
    return rr


def r12_3(ctx: Ctx) -> RuleResult:
    rr = RuleResult("R12.3", "views project the remaining matches in order", floor=4)
    q = ctx.repo.require_class("jsonpath.fluent_api.Query")
    want = {
        "values": ["{m}.obj"],
        "locations": ["{m}.path"],
        "items": ["({m}.path, {m}.obj)"],
        "pointers": ["{m}.pointer()"],
    }
    for name, forms in want.items():
        fn = ctx.repo.find_method(q, name)  # (maybe inherited from a base that holds the views)
        if fn is None:
            raise AnalysisError(f"Query.{name} not found")
        from .c11 import _shape_error
        from .c11 import _single_return

        g = _single_return(fn)
        if g is None:
            raise _shape_error("R12.3", fn)
        if not isinstance(g, (ast.GeneratorExp, ast.ListComp)):
            raise AnalysisError(f"R12.3: the view `{name}` is not written as a comprehension over the shared iterator")
        ok = False
        if isinstance(g, (ast.GeneratorExp, ast.ListComp)):
            if len(g.generators) == 1 and not g.generators[0].ifs and path_of(g.generators[0].iter) == "self._it":
                m = path_of(g.generators[0].target)
                if m and ast.unparse(g.elt) in [f.format(m=m) for f in forms]:
                    ok = True
        if ok:
            rr.ok(fn.loc(), f"{name}: ({forms[0].format(m='m')} for m in self._it)")
        else:
            rr.bad(fn, fn.node, f"`{name}` must map each remaining match, in order and without a condition",
                   construct=f"view {name}")
    return rr


def r12_4(ctx: Ctx) -> RuleResult:
    rr = RuleResult("R12.4", "the shared iterator is only ever replaced by something built from it", floor=3)
    q = ctx.repo.require_class("jsonpath.fluent_api.Query")
    for name, fn in sorted(q.methods.items()):
        # locals derived from the shared iterator
        derived = set()
        for _ in range(3):
            for a in ast.walk(fn.node):
                if isinstance(a, ast.Assign) and isinstance(a.targets[0], ast.Name):
                    txt = ast.unparse(a.value)
                    if "self._it" in txt or any(d in {x.id for x in ast.walk(a.value) if isinstance(x, ast.Name)} for d in derived):
                        derived.add(a.targets[0].id)
        for n in ast.walk(fn.node):
            if isinstance(n, (ast.Assign, ast.AugAssign)):
                targets = n.targets if isinstance(n, ast.Assign) else [n.target]
                for t in targets:
                    if path_of(t) != "self._it":
                        continue
                    from_prev = "self._it" in ast.unparse(n.value) or any(
                        isinstance(x, ast.Name) and x.id in derived for x in ast.walk(n.value)
                    )
                    if name in ("take", "values", "locations", "items", "pointers", "first_one", "one") and path_of(n.value) != "self._it":
                        rr.bad(fn, n, f"`{name}` replaces the shared iterator: what remains after it must stay "
                               "available to the original query", construct=short(n))
                    elif name != "__init__" and not from_prev:
                        rr.bad(fn, n, f"`{name}` replaces the shared iterator with something not built from it",
                               construct=short(n))
                    else:
                        rr.ok(fn.loc(n), f"{name}: {short(n, 70)}")
    # ... nor through another method: the operations that must leave the rest of the matches with the query may
    # not call (directly or through other methods of the class) one that rewraps the shared iterator
    def assigns_it(f) -> bool:  # type: ignore[no-untyped-def]
        return any(
            isinstance(n, (ast.Assign, ast.AugAssign)) and any(
                path_of(t) == "self._it" for t in (n.targets if isinstance(n, ast.Assign) else [n.target]))
            and not (isinstance(n, ast.Assign) and path_of(n.value) == "self._it")
            for n in ast.walk(f.node))

    def self_calls(f) -> Set[str]:  # type: ignore[no-untyped-def]
        return {c.func.attr for c in calls(f.node) if isinstance(c.func, ast.Attribute) and path_of(c.func.value) == "self"
                and c.func.attr in q.methods}

    rewrap = {n for n, f in q.methods.items() if n != "__init__" and assigns_it(f)}
    for _ in range(4):
        rewrap |= {n for n, f in q.methods.items() if n != "__init__" and self_calls(f) & rewrap}
    for name in ("take", "values", "locations", "items", "pointers", "first_one", "one"):
        fn = q.methods.get(name)
        if fn is None:
            continue
        for c in calls(fn.node):
            if isinstance(c.func, ast.Attribute) and path_of(c.func.value) == "self" and c.func.attr in rewrap and c.func.attr != name:
                rr.bad(fn, c, f"`{name}` calls `self.{c.func.attr}()`, which replaces the shared iterator: the matches after the "
                       f"ones `{name}` hands out are lost to the query", construct=f"{name} -> self.{c.func.attr}()")
    tk = q.methods.get("take")
    if tk is not None:
        for c in calls(tk.node, "Query"):
            a0 = c.args[0] if c.args else None
            eager = isinstance(a0, (ast.List, ast.ListComp, ast.Tuple)) or (
                isinstance(a0, ast.Call) and callee_name(a0) in ("list", "tuple", "deque")
            ) or (isinstance(a0, ast.Name) and any(
                isinstance(x, ast.Assign) and path_of(x.targets[0]) == a0.id and isinstance(x.value, ast.Call)
                and callee_name(x.value) in ("list", "tuple", "deque") for x in ast.walk(tk.node)))
            if eager:
                rr.ok(tk.loc(c), "take: the next n matches are taken off the shared iterator at once")
            else:
                rr.bad(tk, c, "`take` hands out a lazy view of the shared iterator: which of the two queries gets the "
                       "leading matches then depends on which one is consumed first", construct=short(c))
    for name in ("take", "tee"):
        fn = q.methods.get(name)
        if fn is None:
            raise AnalysisError(f"Query.{name} not found")
        ctors = [c for c in calls(fn.node, "Query")]
        ok = bool(ctors) and all(
            (len(c.args) == 2 and path_of(c.args[1]) == "self._env" and not c.keywords)  # noqa: PLR2004
            or (len(c.args) == 1 and [k.arg for k in c.keywords] == ["env"] and path_of(c.keywords[0].value) == "self._env")
            for c in ctors
        ) and "self._it" in ast.unparse(fn.node)
        if ok:
            rr.ok(fn.loc(), f"{name}: new Query objects over self._it with the same environment")
        else:
            rr.bad(fn, fn.node, f"`{name}` must return new Query objects built from the shared iterator and the same environment",
                   construct=f"{name}: new Query")
    return rr


def r12_8(ctx: Ctx) -> RuleResult:
    """The query iterator runs over the full match list - the matches finditer() gives for the same path, data and
    filter context.  A necessary condition that is visible in the code: every entry point named `query` hands each of
    its arguments on; a parameter that is never read on the way to the result (a `filter_context` that is not carried
    over when the function is re-routed) is replaced by some default, and every chain built on the query is wrong."""
    rr = RuleResult("R12.8", "the `query` entry points use every argument they are given", floor=6)
    for cname in ("jsonpath.env.JSONPathEnvironment", "jsonpath.path.JSONPath", "jsonpath.path.CompoundJSONPath"):
        cls = ctx.repo.require_class(cname)
        fn = ctx.repo.find_method(cls, "query")
        if fn is None:
            raise AnalysisError(f"R12.8: {cname}.query not found")
        a = fn.node.args
        params = [x.arg for x in a.posonlyargs + a.args + a.kwonlyargs][1:]
        loads = {n.id for n in ast.walk(fn.node) if isinstance(n, ast.Name) and isinstance(n.ctx, ast.Load)}
        for p_ in params:
            if p_ in loads:
                rr.ok(fn.loc(), f"{fn.qualname}: `{p_}` is handed on")
            else:
                rr.bad(fn, fn.node, f"{fn.qualname} never reads its parameter `{p_}`: the query iterator does not run over the matches for the "
                       f"caller's {p_} (finditer() with the same arguments gives other matches)", construct=f"{fn.name}: parameter {p_} dropped")
    return rr


RULES = [r12_1, r12_2, r12_3, r12_4, r12_8]
