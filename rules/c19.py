"""C19 - projection returns exactly the selected values (structural clauses).

R19.1 the document is not written through: no store on a value that may alias
      the document
R19.2 matches that are not containers produce no projection
R19.3 flat projection appends the selected values in selection order

NOT decided: the structure of relative and root projections (sparse-array
compaction, no extra leaves) - value-level properties of dictionary manipulation.
"""

from __future__ import annotations

import ast
from typing import Dict
from typing import List
from typing import Optional
from typing import Set
from typing import Tuple

from sa.flow import Flow
from sa.kinds import ARRAY
from sa.kinds import JSON_KINDS
from sa.kinds import KindDomain
from sa.kinds import OBJECT
from sa.kinds import path_of
from sa.loader import AnalysisError
from sa.loader import FuncInfo
from sa.loader import short
from sa.report import RuleResult

from . import Ctx
from .common import callee_name
from .common import calls

MUTATORS = {"append", "extend", "insert", "pop", "remove", "clear", "update", "setdefault", "add", "sort", "reverse", "__setitem__", "__delitem__"}


def _is_doc_source(e: ast.AST) -> bool:
    """`<match>.obj` / `<match>.value` / `<match>.root`: references into the caller's document."""
    return isinstance(e, ast.Attribute) and e.attr in ("obj", "root", "value") and isinstance(e.value, ast.Name) and "match" in e.value.id


class _Taint:
    """Flow-insensitive alias/taint analysis of one function.

    tainted: names that may *be* (alias) a document value
    holds:   names of containers that may *contain* document references
    """

    def __init__(self, ctx: Ctx, fn: FuncInfo, tainted_params: Set[str], holds_params: Set[str]) -> None:
        self.ctx = ctx
        self.fn = fn
        self.tainted: Set[str] = set(tainted_params)
        self.holds: Set[str] = set(holds_params)
        self.violations: List[Tuple[ast.AST, str]] = []
        self.calls_out: List[Tuple[ast.Call, List[bool], List[bool]]] = []
        self._solve()

    def expr_tainted(self, e: Optional[ast.AST]) -> bool:
        if e is None:
            return False
        if isinstance(e, ast.Call) and callee_name(e) == "deepcopy":
            return False  # sanitizer: a deep copy shares nothing with the document
        if _is_doc_source(e):
            return True
        if isinstance(e, ast.Name):
            return e.id in self.tainted
        if isinstance(e, ast.Subscript):
            base = e.value
            if isinstance(base, ast.Name) and (base.id in self.holds or base.id in self.tainted):
                return True
            return self.expr_tainted(base)
        if isinstance(e, ast.Attribute):
            return self.expr_tainted(e.value)
        if isinstance(e, (ast.IfExp,)):
            return self.expr_tainted(e.body) or self.expr_tainted(e.orelse)
        if isinstance(e, ast.BinOp):
            return False  # concatenation builds a new object
        return False

    def _solve(self) -> None:
        for _ in range(8):
            before = (set(self.tainted), set(self.holds))
            for n in ast.walk(self.fn.node):
                if isinstance(n, ast.Assign):
                    for t in n.targets:
                        self._assign(t, n.value)
                elif isinstance(n, ast.AnnAssign) and n.value is not None:
                    self._assign(n.target, n.value)
                elif isinstance(n, (ast.For, ast.AsyncFor)):
                    # elements of a holding container may be document values
                    if isinstance(n.iter, ast.Name) and (n.iter.id in self.holds or n.iter.id in self.tainted):
                        for x in ast.walk(n.target):
                            if isinstance(x, ast.Name):
                                self.tainted.add(x.id)
                elif isinstance(n, ast.Call) and isinstance(n.func, ast.Attribute) and n.func.attr in ("append", "insert", "extend", "setdefault", "update", "add"):
                    recv = n.func.value
                    if isinstance(recv, ast.Name) and any(self.expr_tainted(a) for a in n.args):
                        self.holds.add(recv.id)
            if (self.tainted, self.holds) == before:
                break
        # violations: writes on a receiver that may be a document value
        for n in ast.walk(self.fn.node):
            targets: List[ast.AST] = []
            if isinstance(n, ast.Assign):
                targets = [t for t in n.targets if isinstance(t, (ast.Subscript, ast.Attribute))]
            elif isinstance(n, ast.AugAssign) and isinstance(n.target, (ast.Subscript, ast.Attribute)):
                targets = [n.target]
            elif isinstance(n, ast.Delete):
                targets = [t for t in n.targets if isinstance(t, (ast.Subscript, ast.Attribute))]
            for t in targets:
                base = t.value  # type: ignore[attr-defined]
                if self.expr_tainted(base):
                    self.violations.append((n, ast.unparse(base)))
            if isinstance(n, ast.Call) and isinstance(n.func, ast.Attribute) and n.func.attr in MUTATORS:
                if self.expr_tainted(n.func.value):
                    self.violations.append((n, ast.unparse(n.func.value)))
        # outgoing calls to functions of the same module with tainted / holding arguments
        for c in calls(self.fn.node):
            site = self.ctx.callgraph.by_node.get(id(c))
            if site is None or not site.callees:
                continue
            t = [self.expr_tainted(a) for a in c.args]
            h = [isinstance(a, ast.Name) and a.id in self.holds for a in c.args]
            self.calls_out.append((c, t, h))

    def _assign(self, target: ast.AST, value: ast.AST) -> None:
        if isinstance(target, ast.Name):
            if self.expr_tainted(value):
                self.tainted.add(target.id)
            if isinstance(value, ast.Name) and value.id in self.holds:
                self.holds.add(target.id)
            if isinstance(value, ast.Name) and target.id in self.holds:
                self.holds.add(value.id)  # aliases share their contents
        elif isinstance(target, ast.Subscript):
            root = target.value
            if isinstance(root, ast.Name) and self.expr_tainted(value):
                self.holds.add(root.id)
        elif isinstance(target, (ast.Tuple, ast.List)):
            for t in target.elts:
                self._assign(t, value)


def r19_1(ctx: Ctx) -> RuleResult:
    rr = RuleResult("R19.1", "projection never writes through to the document", floor=2)
    mod = ctx.repo.modules.get("jsonpath.fluent_api")
    if mod is None:
        raise AnalysisError("jsonpath/fluent_api.py not found")
    sel = ctx.repo.require_func("Query._select")
    # interprocedural fixpoint over the helpers called from _select
    summaries: Dict[str, Tuple[Set[int], Set[int]]] = {}  # callee -> (tainted param idx, holding param idx)
    analysed: Dict[str, _Taint] = {}
    work: List[Tuple[FuncInfo, Set[str], Set[str]]] = [(sel, set(), set())]
    seen_states: Set[Tuple[str, frozenset, frozenset]] = set()
    caller_holds: Dict[str, Set[str]] = {}
    for _round in range(10):
        if not work:
            break
        fn, tp, hp = work.pop(0)
        key = (fn.qualname, frozenset(tp), frozenset(hp))
        if key in seen_states:
            continue
        seen_states.add(key)
        ta = _Taint(ctx, fn, tp | caller_holds.get(fn.qualname + "#t", set()), hp | caller_holds.get(fn.qualname, set()))
        analysed[fn.qualname] = ta
        for c, tflags, hflags in ta.calls_out:
            site = ctx.callgraph.by_node.get(id(c))
            assert site is not None
            for callee in site.callees:
                if callee.module is not mod or callee is fn:
                    continue
                params = [a.arg for a in callee.node.args.args if a.arg not in ("self", "cls")]
                ctp = {params[i] for i, f in enumerate(tflags) if f and i < len(params)}
                chp = {params[i] for i, f in enumerate(hflags) if f and i < len(params)}
                sub = _Taint(ctx, callee, ctp, chp)
                analysed[callee.qualname] = sub
                # effect on the caller: arguments whose parameter now holds document references
                newly = False
                for i, a in enumerate(c.args):
                    if i < len(params) and params[i] in sub.holds and isinstance(a, ast.Name):
                        hs = caller_holds.setdefault(fn.qualname, set())
                        if a.id not in hs:
                            hs.add(a.id)
                            newly = True
                if newly:
                    work.append((fn, tp, hp))
    n = 0
    for q, ta in analysed.items():
        fn = ctx.repo.functions[q]
        writes = [
            x for x in ast.walk(fn.node)
            if (isinstance(x, (ast.Assign, ast.AugAssign)) and any(
                isinstance(t, (ast.Subscript, ast.Attribute)) for t in (x.targets if isinstance(x, ast.Assign) else [x.target])))
            or isinstance(x, ast.Delete)
            or (isinstance(x, ast.Call) and isinstance(x.func, ast.Attribute) and x.func.attr in MUTATORS)
        ]
        bad_nodes = {id(v[0]) for v in ta.violations}
        for w in writes:
            n += 1
            if id(w) in bad_nodes:
                recv = [r for node, r in ta.violations if node is w][0]
                rr.bad(fn, w, f"`{short(w)}` writes into `{recv}`, which may be a value of the caller's document "
                       "(a selected value is stored in the projection by reference and a later selection descends "
                       "through it): query('$', d).select('a', 'a[0][0]') changes d",
                       construct=short(w))
            else:
                rr.ok(fn.loc(w), f"{fn.qualname}: `{short(w, 60)}` on a fresh container")
    if n < 2:  # noqa: PLR2004  (the two stores of the insertion helper; the flat list may be a comprehension)
        raise AnalysisError(f"R19.1: only {n} write sites found in the projection helpers (floor 2)")
    return rr


def r19_2(ctx: Ctx) -> RuleResult:
    rr = RuleResult("R19.2", "matches that are not arrays or objects produce no projection", floor=1)  # one per projecting return; branches may be merged
    fn = ctx.repo.require_func("Query._select")
    m = fn.node.args.args[1].arg
    subj = f"{m}.obj"
    dom = KindDomain(defaults={subj: JSON_KINDS})
    flow = Flow(fn.node, dom)
    rets = [r for r in ast.walk(fn.node) if isinstance(r, ast.Return)]
    for r in rets:
        if r.value is None or (isinstance(r.value, ast.Constant) and r.value.value is None):
            continue
        st = flow.pre.get(id(r))
        if st is None:
            continue
        ks = dom.lookup(st, subj) & JSON_KINDS
        if ks <= {OBJECT, ARRAY}:
            rr.ok(fn.loc(r), f"`{short(r, 50)}` only for {sorted(ks)}")
        else:
            rr.bad(fn, r, f"a projection is produced for a match of kind {sorted(ks - {OBJECT, ARRAY})}",
                   construct=short(r))
    return rr


def _flat_comprehension(body: List[ast.stmt], exprs: str) -> Optional[str]:
    """The flat projection written as one list comprehension that is returned: None when the branch is not of that
    form, "" when it lists every selected value in selection order, otherwise what is wrong with it."""
    if not (len(body) == 1 and isinstance(body[0], ast.Return) and isinstance(body[0].value, ast.ListComp)):
        return None
    lc = body[0].value
    gens = lc.generators
    if len(gens) != 2 or any(g.is_async for g in gens):  # noqa: PLR2004
        return None
    first, second = gens
    # the first generator runs over the expressions in order, or over (f(expr) for expr in expressions)
    src = first.iter
    if isinstance(src, (ast.GeneratorExp, ast.ListComp)):
        if len(src.generators) != 1 or src.generators[0].ifs or path_of(src.generators[0].iter) != exprs:
            return "the flat projection must run over the expressions in order"
    elif path_of(src) != exprs:
        return "the flat projection must run over the expressions in order"
    if not (isinstance(second.iter, ast.Call) and callee_name(second.iter) == "finditer"):
        return "each expression's matches must be iterated inside the loop over expressions"
    if first.ifs or second.ifs:
        return "every selected value must be listed unconditionally, in selection order"
    mv = path_of(second.target)
    if mv is None or path_of(lc.elt) != f"{mv}.obj":
        return "every selected value must be listed unconditionally, in selection order"
    return ""


def r19_3(ctx: Ctx) -> RuleResult:
    rr = RuleResult("R19.3", "flat projection appends the selected values in selection order", floor=1)
    fn = ctx.repo.require_func("Query._select")
    exprs = fn.node.args.args[2].arg
    found = False
    for n in ast.walk(fn.node):
        if isinstance(n, ast.If) and "FLAT" in ast.unparse(n.test):
            outer = [s for s in n.body if isinstance(s, ast.For) and path_of(s.iter) == exprs]
            comp = _flat_comprehension(n.body, exprs)
            if comp is not None:
                found = True
                if comp == "":
                    rr.ok(fn.loc(n), "flat: [m.obj for expr in expressions for m in path.finditer(match.obj)]")
                else:
                    rr.bad(fn, n, comp, construct="flat: comprehension")
                continue
            if len(outer) != 1:
                # neither the nested loops nor the comprehension this rule reads: the order of the flat list is then
                # decided by execution (R19.11), not declared wrong
                raise AnalysisError("R19.3: the flat projection is not written as a loop over the expressions")
            inner = [s for s in outer[0].body if isinstance(s, ast.For) and isinstance(s.iter, ast.Call) and callee_name(s.iter) == "finditer"]
            if len(inner) != 1:
                rr.bad(fn, outer[0], "each expression's matches must be iterated inside the loop over expressions",
                       construct="flat: inner loop")
                return rr
            mv = path_of(inner[0].target)
            apps = [s for s in inner[0].body if isinstance(s, ast.Expr) and isinstance(s.value, ast.Call) and callee_name(s.value) == "append"]
            ok = len(apps) == 1 and len(inner[0].body) == 1 and path_of(apps[0].value.args[0]) == f"{mv}.obj"  # type: ignore[union-attr]
            arr = path_of(apps[0].value.func.value) if apps else None  # type: ignore[union-attr]
            rets = [s for s in n.body if isinstance(s, ast.Return)]
            if ok and rets and path_of(rets[0].value) == arr:
                rr.ok(fn.loc(n), "flat: for expr in expressions: for m in path.finditer(match.obj): arr.append(m.obj)")
            else:
                rr.bad(fn, inner[0], "every selected value must be appended unconditionally, in selection order",
                       construct="flat: append")
            found = True
    if not found:
        raise AnalysisError("R19.3: the FLAT projection branch was not found in Query._select")
    return rr


def r19_4(ctx: Ctx) -> RuleResult:
    """Every selected value is written at its location: the store at the last
    part is reached on every path through the insertion helper."""
    from .common import must_flow

    rr = RuleResult("R19.4", "every selected value is stored at its location, unconditionally", floor=1)
    fn = ctx.repo.require_func("jsonpath.fluent_api._patch_obj")
    params = [a.arg for a in fn.node.args.args]
    if len(params) < 3:
        raise AnalysisError("R19.4: _patch_obj(parts, obj, value) signature changed")
    parts, value = params[0], params[2]

    def stmt_events(s_: ast.stmt) -> List[str]:
        if isinstance(s_, ast.Assign) and isinstance(s_.targets[0], ast.Subscript):
            t = s_.targets[0]
            if ast.unparse(t.slice) == f"{parts}[-1]" and any(
                isinstance(x, ast.Name) and x.id == value for x in ast.walk(s_.value)
            ):
                return ["stored@"]
        return []

    flow = must_flow(fn.node, stmt_events=stmt_events)
    exits = [(k, n, st) for k, n, st in flow.exits if k in ("return", "fall")]
    if not exits:
        raise AnalysisError("R19.4: _patch_obj has no normal exit")
    if all("stored@" in st for _, _, st in exits):
        rr.ok(fn.loc(), f"_patch_obj: `<container>[{parts}[-1]] = <{value}>` on every path")
    else:
        rr.bad(fn, fn.node, "a selected value is not stored on some path through the insertion helper (e.g. when "
               "the slot is already occupied by an earlier, deeper selection): the projection then lacks that value",
               construct="_patch_obj: conditional store of the selected value")
    return rr


def r19_5(ctx: Ctx) -> RuleResult:
    """An empty object stays an object: a mapping is only turned into an array
    when it is known to be non-empty (and keyed by array indices)."""
    from .common import must_flow

    rr = RuleResult("R19.5", "only non-empty integer-keyed levels become arrays", floor=1)
    fn = ctx.repo.require_func("jsonpath.fluent_api._fix_sparse_arrays")
    obj = fn.node.args.args[0].arg

    def refine(test: ast.expr, branch: bool) -> List[str]:
        if path_of(test) == obj and branch:
            return ["nonempty@"]
        return []

    def expr_events(e: ast.expr) -> List[str]:
        # next(iter(obj)) can only be evaluated on a non-empty container
        if isinstance(e, ast.Call) and callee_name(e) == "next" and e.args and isinstance(e.args[0], ast.Call) and callee_name(e.args[0]) == "iter":
            if e.args[0].args and path_of(e.args[0].args[0]) == obj and len(e.args) == 1:
                return ["nonempty@"]
        return []

    flow = must_flow(fn.node, refine_events=refine, expr_events=expr_events)
    n = 0
    for r in [x for x in ast.walk(fn.node) if isinstance(x, ast.Return)]:
        v = r.value
        is_list_from_values = isinstance(v, (ast.ListComp, ast.List)) or (isinstance(v, ast.Call) and callee_name(v) == "list")
        if not is_list_from_values or f"{obj}.values()" not in ast.unparse(v):
            continue
        n += 1
        st = flow.pre.get(id(r)) or frozenset()
        if "nonempty@" in st:
            rr.ok(fn.loc(r), "a mapping becomes an array only when it is non-empty")
        else:
            rr.bad(fn, r, "a mapping can be turned into an array without being known to be non-empty: an empty "
                   "object `{}` inside a selected value would come out as `[]`", construct=short(r))
    if n == 0:
        raise AnalysisError("R19.5: the mapping-to-array conversion was not found in _fix_sparse_arrays")
    return rr


def r19_6(ctx: Ctx) -> RuleResult:
    """A projection is rebuilt from the `parts` of the selected matches: an int part becomes an array slot, a str part
    an object member.  So the parts a selector produces must be typed by what was selected (= R20.1)."""
    from .c20 import r20_1

    rr = r20_1(ctx)
    rr.rule = "R19.6"
    for f in rr.findings:
        f.rule = "R19.6"
    return rr


def r19_7(ctx: Ctx) -> RuleResult:
    """A level of the projection that exists is never replaced by an empty one.  The insertion helper walks down
    the value it is building; what it walks through includes the copies of selected values it stored itself, and
    a selected value may be an array.  `k in X` on an array is a test on the *items*, not on the indices, so a
    fresh level `X[k] = {}` may only be stored where X is known not to be a list (an isinstance test on the path
    to the store, or a store inside the handler of a failed lookup)."""
    from .common import isinstance_classes
    from .common import path_conditions

    rr = RuleResult("R19.7", "an existing level of the projection is never replaced by an empty one", floor=1)
    fn = ctx.repo.require_func("jsonpath.fluent_api._patch_obj")
    n = 0
    handlers = {id(s): h for t in ast.walk(fn.node) if isinstance(t, ast.Try) for h in t.handlers for s in ast.walk(h)}
    for st in ast.walk(fn.node):
        if not (isinstance(st, ast.Assign) and len(st.targets) == 1 and isinstance(st.targets[0], ast.Subscript)):
            continue
        v = st.value
        fresh = (isinstance(v, ast.Dict) and not v.keys) or (isinstance(v, ast.Call) and callee_name(v) == "dict" and not v.args and not v.keywords)
        if not fresh:
            continue
        n += 1
        subject = path_of(st.targets[0].value)
        conds = path_conditions(fn.node, st)
        discriminated = False
        for t, b in conds:
            ic = isinstance_classes(t)
            if ic is None or ic[0] != subject:
                continue
            names = set(ic[1])
            if b and names <= {"dict", "Mapping", "MutableMapping"}:
                discriminated = True
            if not b and names & {"list", "Sequence", "MutableSequence"}:
                discriminated = True
        h = handlers.get(id(st))
        if h is not None and h.type is not None and {"KeyError", "IndexError", "LookupError"} & {x.id for x in ast.walk(h.type) if isinstance(x, ast.Name)}:
            discriminated = True
        key_tests = [t for t, _b in conds if isinstance(t, ast.Compare) and len(t.ops) == 1 and isinstance(t.ops[0], (ast.In, ast.NotIn))
                     and path_of(t.comparators[0]) == subject]
        if discriminated or not key_tests:
            rr.ok(fn.loc(st), f"`{short(st)}`: stored only where `{subject}` is known to be a mapping (or the lookup failed)")
        else:
            rr.bad(fn, st, f"`{short(st)}` is guarded by `{short(key_tests[0])}` only: when `{subject}` is the copy of an array that an "
                   "earlier query selected as a whole, `in` looks at its items, the index is \"missing\" and the item is replaced by "
                   "an empty object (`select('a', 'a[0].b')` loses the other members of `a[0]`)",
                   construct=f"_patch_obj: `{short(st)}` under `{short(key_tests[0])}` without a mapping test")
    if n == 0:
        raise AnalysisError("R19.7: _patch_obj no longer creates missing levels as empty dictionaries")
    return rr


def r19_8(ctx: Ctx) -> RuleResult:
    """Projections are rebuilt from the location parts of the selected matches: the parts the selectors produce are
    the RFC's (a negative index is located from the start), on covering small documents (= R1.14)."""
    from .c01 import r1_14

    return r1_14(ctx, "R19.8")


def r19_9(ctx: Ctx) -> RuleResult:
    """A level of the projection becomes an array only when its keys are *array indices*, i.e. ints (the parts of
    matched array elements); an object whose member names happen to be digit strings stays an object.  The return that
    builds the list in `_fix_sparse_arrays` must be reached under an `isinstance(<key>, int)` test."""
    from .common import isinstance_classes
    from .common import path_conditions

    rr = RuleResult("R19.9", "only levels keyed by int indices become arrays", floor=1)
    fn = ctx.repo.require_func("jsonpath.fluent_api._fix_sparse_arrays")
    obj = fn.node.args.args[0].arg
    n = 0
    for r in [x for x in ast.walk(fn.node) if isinstance(x, ast.Return)]:
        v = r.value
        is_list_from_values = isinstance(v, (ast.ListComp, ast.List)) or (isinstance(v, ast.Call) and callee_name(v) == "list")
        if not is_list_from_values or f"{obj}.values()" not in ast.unparse(v):
            continue
        n += 1
        ok = False
        for t, b in path_conditions(fn.node, r):
            if b and isinstance(t, ast.Call) and callee_name(t) == "isinstance" and len(t.args) == 2 and ast.unparse(t.args[1]) == "int":  # noqa: PLR2004
                ok = True
        if ok:
            rr.ok(fn.loc(r), "a mapping becomes an array only under isinstance(<key>, int)")
        else:
            conds = [short(t) for t, b in path_conditions(fn.node, r) if b]
            rr.bad(fn, r, f"a mapping is turned into an array under {conds or 'no test'} - not under a test that its keys are ints: an object whose "
                   "first member name is a digit string (`{\"0\": ...}`, `{\"2024\": ...}`) loses its member names", construct=f"_fix_sparse_arrays: list under {conds}")
    if n == 0:
        raise AnalysisError("R19.9: the mapping-to-array conversion was not found in _fix_sparse_arrays")
    return rr


def r19_10(ctx: Ctx) -> RuleResult:
    """Nothing selected, nothing projected: the value a projection is built in starts empty and is written only by the
    insertion helper, once per selected node.  In `_select` no other statement may store into it (directly, through an
    alias, or with `setdefault` / `update`): a path laid down before anything is selected makes an empty projection
    look like a result."""
    rr = RuleResult("R19.10", "a projection is written only by inserting selected nodes", floor=1)
    fn = ctx.repo.require_func("Query._select")
    # names that hold the projection under construction: initialised to an empty dict display, and their aliases
    holders: Set[str] = set()
    for a in ast.walk(fn.node):
        if isinstance(a, (ast.Assign, ast.AnnAssign)):
            tgt = (a.targets[0] if isinstance(a, ast.Assign) else a.target)
            if isinstance(tgt, ast.Name) and isinstance(a.value, ast.Dict) and not a.value.keys:
                holders.add(tgt.id)
    if not holders:
        raise AnalysisError("R19.10: _select no longer builds its projections in an empty dictionary")
    changed = True
    while changed:
        changed = False
        for a in ast.walk(fn.node):
            if isinstance(a, ast.Assign) and isinstance(a.targets[0], ast.Name) and a.targets[0].id not in holders:
                v = a.value
                root = v
                while isinstance(root, (ast.Call, ast.Attribute, ast.Subscript)):
                    root = root.func if isinstance(root, ast.Call) else root.value
                if isinstance(root, ast.Name) and root.id in holders and not (isinstance(v, ast.Call) and callee_name(v) in ("_fix_sparse_arrays", "deepcopy", "copy")):
                    holders.add(a.targets[0].id)
                    changed = True
    bad = []
    for n in ast.walk(fn.node):
        if isinstance(n, ast.Subscript) and isinstance(n.ctx, (ast.Store, ast.Del)) and isinstance(n.value, ast.Name) and n.value.id in holders:
            bad.append(n)
        elif isinstance(n, ast.Call) and isinstance(n.func, ast.Attribute) and n.func.attr in MUTATORS and isinstance(n.func.value, ast.Name) and n.func.value.id in holders:
            bad.append(n)
    inserts = [c for c in calls(fn.node, "_patch_obj") if len(c.args) >= 2 and isinstance(c.args[1], ast.Name) and c.args[1].id in holders]  # noqa: PLR2004
    if not inserts:
        raise AnalysisError("R19.10: _select no longer inserts selected nodes with _patch_obj(parts, <projection>, value)")
    if bad:
        rr.bad(fn, bad[0], f"`{short(bad[0])}` writes into the projection outside the insertion of a selected node: a match under which nothing is "
               "selected then yields a projection (`{\"meta\": {}}`) instead of none", construct=f"_select: {short(bad[0], 50)}")
    else:
        rr.ok(fn.loc(), f"_select: the projection ({sorted(holders)}) is written by {len(inserts)} _patch_obj call(s) only")
    return rr



# ---------------------------------------------------------------------------------------------------------------
# R19.11: the projection of a match, executed abstractly on covering selections

PROJ_DOC: Dict[str, object] = {
    "a": {"b": [0, {"c": {"g": 1}}, False, "z"], "d": "", "1": "one", "n": None},
    "e": [{"f": 1}, {"f": None}, [7, 8, 9]],
    "s": "text",
}

# (location of the match, for every relative query the locations it selects - relative to the match, in order)
PROJ_CASES: List[Tuple[Tuple[object, ...], List[List[Tuple[object, ...]]]]] = [
    (("a",), [[("b",)], [("b", 1, "c"), ("d",)]]),          # a later selection below an earlier one
    (("a",), [[("b", 1, "c")], [("b", 3)]]),                # ranks in a sparse array
    (("a",), [[("b", 0)], [("b", 2)], [("d",), ("n",)]]),    # falsy values are values
    (("a",), [[("1",)], [("b", 1, "c", "g")]]),              # a member name that looks like an index stays a name
    (("a",), [[("b", 1, "c", "g")], [("b", 1)]]),            # an earlier selection below a later one
    (("e",), [[(1, "f")], [(2, 0), (2, 2)]]),                 # the match is an array; nested arrays
    (("e", 2), [[(1,)]]),
    ((), [[("a", "b", 1, "c"), ("e", 0, "f")], [("s",)]]),   # the match is the root
    (("a",), [[], []]),                                       # nothing selected
    (("s",), [[]]),                                           # the match is a string
    (("a", "n"), [[]]),                                       # the match is null
    (("a", "b", 0), [[]]),                                    # the match is a number
]


def _projection_reference(doc: object, at: Tuple[object, ...], selections: List[List[Tuple[object, ...]]], style: str) -> object:
    """C19's statement written down on its own: flat = the selected values in order; relative / root = the value in
    which each selected value is found at its location with every array index replaced by its rank among the indices
    selected in that array, and nothing else; None when the match is not a container."""
    import copy as _copy

    def get(v: object, parts: Tuple[object, ...]) -> object:
        for p_ in parts:
            v = v[p_]  # type: ignore[index]
        return v

    here = get(doc, at)
    if not isinstance(here, (dict, list)):
        return None
    located = [(parts, _copy.deepcopy(get(here, parts))) for sel in selections for parts in sel]
    if style == "FLAT":
        return [v for _p, v in located]
    LEAF = "$leaf"
    trie: Dict[object, object] = {}
    for parts, v in located:
        full = tuple(at) + tuple(parts) if style == "ROOT" else tuple(parts)
        node = trie
        for p_ in full:
            if LEAF in node:
                break  # below a value that is already there whole
            node = node.setdefault(("k", p_), {})  # type: ignore[assignment]
        else:
            node.clear()
            node[LEAF] = v

    def build(node: Dict[object, object]) -> object:
        if LEAF in node:
            return node[LEAF]
        keys = [k[1] for k in node]  # type: ignore[index]
        if keys and all(isinstance(k, int) for k in keys):
            return [build(node[("k", k)]) for k in sorted(keys)]  # type: ignore[arg-type,type-var]
        return {k: build(node[("k", k)]) for k in keys}  # type: ignore[arg-type]

    return build(trie)


def projection_by_execution(ctx: Ctx, rule: str, floor: int, only_purity: bool = False) -> RuleResult:
    import copy as _copy

    from sa.peval import UNKNOWN

    from .model import RAISES
    from .model import MObj
    from .model import Model

    rr = RuleResult(rule, "the projection of a match under the three styles, executed on covering selections; the document is left as it was", floor=floor)
    fn = ctx.repo.require_func("Query._select")
    pcls = ctx.folder.global_value(ctx.repo.modules["jsonpath.fluent_api"], "Projection")
    if not hasattr(pcls, "cls"):
        raise AnalysisError(f"{rule}: jsonpath.fluent_api.Projection is not a class")

    class _Path(MObj):
        """Stands for a compiled relative query: `finditer(value)` gives the matches at the locations of the case."""

        def __init__(self, model: Model, rel: List[Tuple[object, ...]]) -> None:
            super().__init__(model, "jsonpath.path.JSONPath", {})
            self.rel = rel

        def peval_call(self, method: str, args: List[object], kwargs: Dict[str, object]) -> object:
            if method == "finditer" and len(args) == 1 and not kwargs:
                out = []
                for parts in self.rel:
                    v = args[0]
                    for p_ in parts:
                        v = v[p_]  # type: ignore[index]
                    out.append(MObj(self.model, "jsonpath.match.JSONPathMatch", {
                        "parts": tuple(parts), "obj": v, "path": "$", "root": args[0], "parent": None, "children": [], "filter_context": {}}))
                return out
            return UNKNOWN

    def containers(v: object, parts: Tuple[object, ...], out: Dict[Tuple[object, ...], int]) -> None:
        if isinstance(v, dict):
            out[parts] = id(v)
            for k, x in v.items():
                containers(x, parts + (k,), out)
        elif isinstance(v, list):
            out[parts] = id(v)
            for i, x in enumerate(v):
                containers(x, parts + (i,), out)

    for at, selections in PROJ_CASES:
        for style in ("RELATIVE", "FLAT", "ROOT"):
            try:
                style_value = ctx.folder.class_attr(pcls.cls, style)
            except Exception as err:  # noqa: BLE001
                raise AnalysisError(f"{rule}: Projection.{style} not found") from err
            model = Model(ctx, rule)
            model.whole_bodies = model.auto_construct = model.exact_exceptions = model.heap = True
            doc = _copy.deepcopy(PROJ_DOC)
            before: Dict[Tuple[object, ...], int] = {}
            containers(doc, (), before)
            here: object = doc
            for p_ in at:
                here = here[p_]  # type: ignore[index]
            env = model.new("jsonpath.env.JSONPathEnvironment")
            query = MObj(model, "jsonpath.fluent_api.Query", {"_env": env, "_it": []})
            match = MObj(model, "jsonpath.match.JSONPathMatch", {
                "parts": tuple(at), "obj": here, "path": "$", "root": doc, "parent": None, "children": [], "filter_context": {}})
            exprs = tuple(_Path(model, sel) for sel in selections)
            # the arguments by what the parameters are declared to be (the helper may be a staticmethod that is handed
            # the environment, its parameters may have been reordered or renamed)
            from .common import own_params

            call_args: List[object] = []
            for pname_ in own_params(fn):
                ann_ = next((ast.unparse(a_.annotation) for a_ in fn.node.args.args + fn.node.args.kwonlyargs if a_.arg == pname_ and a_.annotation is not None), "")
                if "JSONPathMatch" in ann_ and "Tuple" not in ann_ and "Iterable" not in ann_:
                    call_args.append(match)
                elif "Projection" in ann_:
                    call_args.append(style_value)
                elif "JSONPathEnvironment" in ann_:
                    call_args.append(env)
                elif ann_:
                    call_args.append(exprs)
                else:
                    raise AnalysisError(f"{rule}: the parameter `{pname_}` of {fn.qualname} has no annotation to tell what it is")
            if len(call_args) < 3:  # noqa: PLR2004
                raise AnalysisError(f"{rule}: {fn.qualname} no longer takes a match, the relative queries and the projection style")
            got = model.call(query, fn.name, list(call_args))
            again = model.call(query, fn.name, list(call_args)) if got is not RAISES else got
            label = f"{style.lower()} projection of the match at {list(at)} with selections {[[list(x) for x in sel] for sel in selections]}"
            if got is RAISES:
                rr.bad(fn, fn.node, f"{label} raises {str(model.last_raised).split('.')[-1]}", construct=f"{style} at {list(at)}: raises")
                continue
            after: Dict[Tuple[object, ...], int] = {}
            containers(doc, (), after)
            if doc != PROJ_DOC or after != before:
                what = "changes the document" if doc != PROJ_DOC else "replaces arrays / objects of the document by copies (the document is written to)"
                rr.bad(fn, fn.node, f"{label} {what}", construct=f"{style} at {list(at)} {[[list(x) for x in sel] for sel in selections]}: document modified")
                continue
            if not only_purity and (again is RAISES or again is UNKNOWN or again != got):
                rr.bad(fn, fn.node, f"{label} is {got!r} the first time and {'an exception' if again is RAISES else repr(again)} the second time: "
                       "a projection must not depend on projections made before it", construct=f"{style} at {list(at)}: second projection differs")
                continue
            if only_purity:
                rr.ok(fn.loc(), f"{label}: the document is the same objects with the same content afterwards")
                continue
            if got is UNKNOWN or _has_unknown(got):
                raise AnalysisError(f"{rule}: the {label} cannot be determined")
            want = _projection_reference(PROJ_DOC, at, selections, style)
            nothing = not any(selections) or want is None
            if nothing:
                if got:
                    rr.bad(fn, fn.node, f"{label} is {got!r}: a match that is not an array or object, or for which nothing is selected, has no projection",
                           construct=f"{style} at {list(at)}: projection of nothing")
                else:
                    rr.ok(fn.loc(), f"{label}: no projection")
                continue
            if type(got) is type(want) and got == want and _same_types(got, want):
                rr.ok(fn.loc(), f"{label} = {want!r}")
            else:
                rr.bad(fn, fn.node, f"{label} is {got!r}, but the selected values at their (rank-compacted) locations are {want!r}",
                       construct=f"{style} at {list(at)} {[[list(x) for x in sel] for sel in selections]}")
    return rr


def _has_unknown(v: object) -> bool:
    from sa.peval import UNKNOWN

    if v is UNKNOWN:
        return True
    if isinstance(v, dict):
        return any(_has_unknown(k) or _has_unknown(x) for k, x in v.items())
    if isinstance(v, (list, tuple)):
        return any(_has_unknown(x) for x in v)
    return not (v is None or isinstance(v, (str, int, float, bool)))


def _same_types(a: object, b: object) -> bool:
    """`==` between JSON values, with booleans kept apart from numbers (False == 0 in Python)."""
    if isinstance(a, bool) != isinstance(b, bool):
        return False
    if isinstance(a, dict) and isinstance(b, dict):
        return list(a) == list(b) and all(_same_types(a[k], b[k]) for k in a)
    if isinstance(a, list) and isinstance(b, list):
        return len(a) == len(b) and all(_same_types(x, y) for x, y in zip(a, b))
    return type(a) is type(b) and a == b


def _or_executed(rule: str, title: str, shape_rule):  # type: ignore[no-untyped-def]
    """A rule that reads the shape of Query._select and its two helpers: when the shape it knows is not there (the
    projection was rewritten - other helpers, a table of styles, a comprehension), the clause is not given up as
    undecidable: R19.11 executes the projection itself on covering selections, whatever its shape, and fails the run
    if it cannot follow it.  A shape that IS recognised and violates the clause is reported as before."""

    def run(ctx: Ctx) -> RuleResult:
        try:
            return shape_rule(ctx)
        except AnalysisError as err:
            executed = ctx.cached("r19_11", lambda: r19_11(ctx))  # (raises when the execution cannot be followed)
            rr = RuleResult(rule, title, floor=0)
            rr.note(f"the shape this rule reads was not found ({str(err)[:160]}); the clause is decided by R19.11, which executed the "
                    f"projection on {len(executed.instances)} covering cases")
            rr.ok("jsonpath/fluent_api.py", f"{rule}: decided by execution (R19.11)")
            return rr

    run.__name__ = shape_rule.__name__
    run.__doc__ = shape_rule.__doc__
    return run


def r19_11(ctx: Ctx) -> RuleResult:
    """The property itself on covering selections, by abstract execution of Query._select (rules/model.py; exceptions as
    they run, containers changed in place): the relative queries are stood in for by objects whose `finditer` gives the
    matches at chosen locations below the match; the result is compared with C19's statement written down on its own
    (_projection_reference), and the document must afterwards be the same objects with the same content."""
    return projection_by_execution(ctx, "R19.11", floor=30)


RULES = [
    _or_executed("R19.1", "projection never writes through to the document", r19_1),
    _or_executed("R19.2", "matches that are not arrays or objects produce no projection", r19_2),
    _or_executed("R19.3", "flat projection appends the selected values in selection order", r19_3),
    _or_executed("R19.4", "every selected value is stored at its location, unconditionally", r19_4),
    _or_executed("R19.5", "only non-empty integer-keyed levels become arrays", r19_5),
    r19_6,
    _or_executed("R19.7", "an existing level of the projection is never replaced by an empty one", r19_7),
    r19_8,
    _or_executed("R19.9", "only levels keyed by int indices become arrays", r19_9),
    _or_executed("R19.10", "a projection is written only by inserting selected nodes", r19_10),
    lambda ctx: ctx.cached("r19_11", lambda: r19_11(ctx)),
]
