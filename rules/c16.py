"""C16 - Relative JSON Pointers are parsed, printed and applied per the draft.

R16.1 the grammar admits an origin and an index offset of any number of digits
R16.2 every `parts[-1]` in `to` is dominated by a non-emptiness test; `to`
      raises only relative-pointer / pointer errors
R16.3 tokens of the base and the suffix are not decoded a second time
R16.4 every parsed part is printed
"""

from __future__ import annotations

import ast
from typing import List
from typing import Set

from sa import regexast
from sa.consteval import NotConst
from sa.consteval import RegexConst
from sa.kinds import path_of
from sa.loader import AnalysisError
from sa.loader import short
from sa.report import RuleResult

from . import Ctx
from .common import callee_name
from .common import calls
from .common import kw


def _relative_pattern(ctx: Ctx) -> RegexConst:
    cls = ctx.repo.require_class("RelativeJSONPointer")
    parse = cls.methods.get("_parse")
    if parse is None:
        raise AnalysisError("RelativeJSONPointer._parse not found")
    # the pattern object whose .match()/.fullmatch() is applied to the text
    cands = []
    for c in calls(parse.node):
        if isinstance(c.func, ast.Attribute) and c.func.attr in ("match", "fullmatch") and isinstance(c.func.value, ast.Name):
            cands.append(c.func.value.id)
    for name in cands:
        try:
            v = ctx.folder.global_value(parse.module, name)
        except NotConst:
            continue
        if isinstance(v, RegexConst):
            return v
    raise AnalysisError("R16.1: the relative-pointer grammar pattern cannot be folded")


def r16_1(ctx: Ctx) -> RuleResult:
    rr = RuleResult("R16.1", "relative pointer grammar: multi-digit origin and offset", floor=3)
    pat = _relative_pattern(ctx)
    mod = ctx.repo.modules["jsonpath.pointer"]
    where = f"{mod.relpath}"
    for group in ("ORIGIN", "INDEX"):
        seq = regexast.named_group(pat.pattern, group, pat.flags)
        rep = regexast.single_repeat(seq)
        items = list(seq)
        if rep is None:
            one_digit = len(items) == 1 and regexast.is_digit_class(items[0])
            rr.bad(None, None,
                   f"group {group} of the relative-pointer grammar matches "
                   f"{'exactly one digit' if one_digit else 'a fixed shape'}: the draft allows any "
                   "number of digits (e.g. `0+12#`)",
                   construct=f"{group}: {pat.pattern}", file=where, qualname="jsonpath.pointer.RE_RELATIVE_POINTER")
            continue
        lo, hi, body = rep
        body = list(body)
        if lo >= 1 and hi == regexast.MAXREPEAT and len(body) == 1 and regexast.is_digit_class(body[0]):
            rr.ok(where, f"group {group}: one or more digits")
        else:
            rr.bad(None, None, f"group {group} must be one or more digits (found repeat {lo}..{hi})",
                   construct=f"{group}: {pat.pattern}", file=where, qualname="jsonpath.pointer.RE_RELATIVE_POINTER")
    sign = list(regexast.named_group(pat.pattern, "SIGN", pat.flags))
    cs = regexast.char_set(sign[0]) if len(sign) == 1 else None
    if cs and not cs[0] and cs[1] == {"+", "-"}:
        rr.ok(where, "group SIGN: + or -")
    else:
        rr.bad(None, None, "group SIGN must be exactly `+` or `-`", construct=f"SIGN: {pat.pattern}",
               file=where, qualname="jsonpath.pointer.RE_RELATIVE_POINTER")
    # decided on the folded pattern: a step count or an offset spelled with non-ASCII decimal digits is not a
    # relative pointer of the draft (and would not print as it was written: int() reads it, str() writes ASCII)
    import re as _re

    rx = _re.compile(pat.pattern, pat.flags)
    alien = []
    for d in ("\u0661", "\u0663", "\uff11"):
        m = rx.match(d + "/foo")
        if m is not None and m.group("ORIGIN"):
            alien.append(f"ORIGIN accepts U+{ord(d):04X}")
        m = rx.match("0+" + d + "/x")
        if m is not None and m.group("INDEX_G"):
            alien.append(f"INDEX accepts U+{ord(d):04X}")
    if alien:
        rr.bad(None, None, f"the relative-pointer grammar reads non-ASCII decimal digits as numbers ({alien[0]} and {len(alien) - 1} more): "
               "`\u0661/foo` is parsed as `1/foo`, and printing the parsed pointer does not return its text",
               construct="relative pointer grammar: non-ASCII digits", file=where, qualname="jsonpath.pointer.RE_RELATIVE_POINTER")
    else:
        rr.ok(where, "steps and offset are ASCII digits only")
    if regexast.group_is_optional(pat.pattern, "INDEX_G", pat.flags):
        rr.ok(where, "the offset group is optional as a whole")
    else:
        rr.bad(None, None, "the index offset must be optional", construct=f"INDEX_G: {pat.pattern}",
               file=where, qualname="jsonpath.pointer.RE_RELATIVE_POINTER")
    return rr


def r16_2(ctx: Ctx) -> RuleResult:
    rr = RuleResult("R16.2", "`to` never indexes an empty token list and raises only pointer errors", floor=3)
    fn = ctx.repo.require_func("RelativeJSONPointer.to")
    sites = [s for s in ctx.partial.sites(fn) if s.cls == "LAST"]
    for s in sites:
        if s.discharged:
            rr.ok(fn.loc(s.node), f"{short(s.node)}: {s.discharged}")
        else:
            caught = ctx.escapes.expr_escapes(fn, s.node)
            rr.bad(fn, s.node, "`parts[-1]` is reachable with an empty token list (e.g. `0#` applied to "
                   "the root pointer raises IndexError instead of a relative-pointer error)",
                   construct=short(s.node))
    for name in ("RelativeJSONPointer.to", "JSONPointer.to", "RelativeJSONPointer.__init__"):
        f = ctx.repo.require_func(name)
        bad = [
            (c, o) for c, os_ in ctx.escapes.function_escapes_all(f).items() for o in os_
            if not (ctx.repo.is_subclass(c, "RelativeJSONPointerError") or ctx.repo.is_subclass(c, "JSONPointerError"))
        ]
        if not bad:
            rr.ok(f.loc(), f"{f.qualname}: escapes only relative-pointer / pointer errors")
        for c, o in bad:
            ofn = ctx.repo.functions.get(o.func)
            fd = rr.bad(ofn, None, f"{c.split('.')[-1]} can escape {f.qualname}: {o.text()}",
                        construct=f"{c.split('.')[-1]} from {o.what}", file=o.file, qualname=o.func)
            fd.line = o.line
    return rr


def r16_3(ctx: Ctx) -> RuleResult:
    rr = RuleResult("R16.3", "tokens taken from a pointer are not decoded a second time", floor=1)
    n = 0
    for fn in ctx.repo.functions.values():
        if fn.module.name != "jsonpath.pointer":
            continue
        # variables derived from `<x>.parts`
        tainted: Set[str] = set()
        for _ in range(3):
            for node in ast.walk(fn.node):
                if isinstance(node, ast.Assign) and isinstance(node.targets[0], ast.Name):
                    v = node.value
                    if any(isinstance(a, ast.Attribute) and a.attr == "parts" for a in ast.walk(v)) or any(
                        isinstance(a, ast.Name) and a.id in tainted for a in ast.walk(v)
                    ):
                        tainted.add(node.targets[0].id)
        for c in calls(fn.node, "from_parts"):
            if not c.args:
                continue
            a0 = c.args[0]
            derived = any(isinstance(a, ast.Attribute) and a.attr == "parts" for a in ast.walk(a0)) or any(
                isinstance(a, ast.Name) and a.id in tainted for a in ast.walk(a0)
            )
            if not derived:
                continue
            n += 1
            bad = []
            for flag in ("unicode_escape", "uri_decode"):
                v = kw(c, flag)
                if not (isinstance(v, ast.Constant) and v.value is False):
                    bad.append(flag)
            if bad:
                rr.bad(fn, c, "tokens that come from a pointer's `parts` are already decoded; passing them "
                       f"to from_parts with {', '.join(bad)} not disabled decodes them again "
                       "(`/é` becomes `/Ã©`, `%25` becomes `%`)", construct=short(c, 140))
            else:
                rr.ok(fn.loc(c), f"{fn.qualname}: from_parts(<decoded parts>) with decoding disabled")
    if n == 0:
        raise AnalysisError("R16.3: no from_parts() call on pointer-derived tokens found")
    return rr


def r16_4(ctx: Ctx) -> RuleResult:
    rr = RuleResult("R16.4", "every parsed part of a relative pointer is printed", floor=3)
    cls = ctx.repo.require_class("RelativeJSONPointer")
    init = cls.methods.get("__init__")
    s = cls.methods.get("__str__")
    if init is None or s is None:
        raise AnalysisError("RelativeJSONPointer.__init__/__str__ not found")
    fields: List[str] = []
    for n in ast.walk(init.node):
        if isinstance(n, ast.Assign):
            for t in n.targets:
                elts = t.elts if isinstance(t, ast.Tuple) else [t]
                for e in elts:
                    if isinstance(e, ast.Attribute) and path_of(e.value) == "self":
                        fields.append(e.attr)
    from .c10 import printed_fields

    read = printed_fields(ctx, cls, s)
    for f in fields:
        if f in read:
            rr.ok(s.loc(), f"__str__ reads self.{f}")
        else:
            rr.bad(s, s.node, f"field `{f}` is parsed but not printed", construct=f"__str__ omits {f}")
    return rr


def r16_5(ctx: Ctx) -> RuleResult:
    """The offset result that is stored is the value that was tested for being
    negative, and it is computed from the token left *after* stepping up."""
    from .common import must_flow

    rr = RuleResult("R16.5", "the stored index offset is the one tested against zero", floor=1)
    fn = ctx.repo.require_func("RelativeJSONPointer.to")

    defs = {}
    for n in ast.walk(fn.node):
        if isinstance(n, ast.Assign) and isinstance(n.targets[0], ast.Name):
            defs.setdefault(n.targets[0].id, []).append(ast.unparse(n.value))

    def refine(test: ast.expr, branch: bool) -> List[str]:
        if isinstance(test, ast.Compare) and len(test.ops) == 1:
            c = test.comparators[0]
            if isinstance(c, ast.Constant) and c.value == 0:
                if (isinstance(test.ops[0], ast.Lt) and not branch) or (isinstance(test.ops[0], ast.GtE) and branch):
                    return ["nonneg@" + ast.unparse(test.left)]
        return []

    flow = must_flow(fn.node, refine_events=refine)
    n = 0
    for a in ast.walk(fn.node):
        if not (isinstance(a, ast.Assign) and isinstance(a.targets[0], ast.Subscript)):
            continue
        t = a.targets[0]
        if not (path_of(t.value) and ast.unparse(t.slice) in ("-1",)):
            continue
        v = a.value
        if isinstance(v, (ast.JoinedStr, ast.Constant)):
            continue  # the `#` key marker, not an index
        n += 1
        st = flow.pre.get(id(a)) or frozenset()
        vt = ast.unparse(v)
        tested = {e[len("nonneg@"):] for e in st if e.startswith("nonneg@")}
        ok = vt in tested or any(vt in defs.get(x, []) for x in tested)
        if ok:
            rr.ok(fn.loc(a), f"`{short(a)}`: the stored value was tested for negativity")
        else:
            rr.bad(fn, a, f"`{short(a)}` stores an index offset result that has not itself been tested against zero "
                   f"(tested: {sorted(tested) or 'nothing'}): an offset that makes the index negative must be refused, "
                   "for the token that remains after stepping up", construct=short(a))
    if n == 0:
        raise AnalysisError("R16.5: no index-offset store found in RelativeJSONPointer.to")
    return rr


def r16_6(ctx: Ctx) -> RuleResult:
    """The numbers of a relative pointer are the digits that were written: whatever is converted to the number of
    steps and to the index offset is the text of the ORIGIN / INDEX group itself, not an edited copy of it
    (`.strip("0")` also drops trailing zeros: `0+10` becomes +1)."""
    from .common import expand_locals

    rr = RuleResult("R16.6", "steps and offset are converted from the matched digits themselves", floor=2)
    fn = ctx.repo.require_func("RelativeJSONPointer._parse")
    conv = [c for c in calls(fn.node) if callee_name(c) in ("_zero_or_positive", "int") and c.args]
    seen = set()
    for c in conv:
        e = expand_locals(fn.node, c.args[0])
        groups = [g for g in ast.walk(e) if isinstance(g, ast.Call) and callee_name(g) == "group" and g.args and isinstance(g.args[0], ast.Constant)]
        if not groups:
            continue
        gname = groups[0].args[0].value  # type: ignore[attr-defined]
        seen.add(gname)
        if e is groups[0] or ast.dump(e) == ast.dump(groups[0]):
            rr.ok(fn.loc(c), f"{gname}: `{short(c)}` converts the matched text itself")
        else:
            rr.bad(fn, c, f"the {gname} number is converted from `{short(e, 70)}`, an edited copy of the matched digits: the value "
                   "used is not the value written", construct=f"{gname}: {short(e, 70)}")
    if not {"ORIGIN", "INDEX"} <= seen:
        raise AnalysisError(f"R16.6: conversions of the ORIGIN and INDEX groups not found (found {sorted(seen)})")
    return rr


def r16_7(ctx: Ctx) -> RuleResult:
    """The index that results from an offset is bounded on both sides before it is stored or formatted: the
    offset has any number of digits, so the sum can be an integer that `str()` refuses to print (ValueError, more
    than 4300 digits) - in the resulting pointer or in the error message itself."""
    from .common import path_conditions

    rr = RuleResult("R16.7", "the offset index is range-checked on both sides before it is stored", floor=1)
    fn = ctx.repo.require_func("RelativeJSONPointer.to")
    n = 0
    for a in ast.walk(fn.node):
        if not (isinstance(a, ast.Assign) and isinstance(a.targets[0], ast.Subscript) and ast.unparse(a.targets[0].slice) == "-1"):
            continue
        if isinstance(a.value, (ast.JoinedStr, ast.Constant)):
            continue
        n += 1
        vt = ast.unparse(a.value)
        defs = {ast.unparse(x.targets[0]): ast.unparse(x.value) for x in ast.walk(fn.node)
                if isinstance(x, ast.Assign) and isinstance(x.targets[0], ast.Name)}
        same = {vt} | {k for k, v in defs.items() if v == vt} | ({defs[vt]} if vt in defs else set())
        upper = lower = False
        for t, b in path_conditions(fn.node, a):
            if not (isinstance(t, ast.Compare) and len(t.ops) == 1 and not b):
                continue
            left, op, right = ast.unparse(t.left), t.ops[0], ast.unparse(t.comparators[0])
            if left in same and isinstance(op, (ast.Gt, ast.GtE)) or right in same and isinstance(op, (ast.Lt, ast.LtE)):
                upper = True
            if left in same and isinstance(op, (ast.Lt, ast.LtE)) or right in same and isinstance(op, (ast.Gt, ast.GtE)):
                lower = True
        if upper and lower:
            rr.ok(fn.loc(a), f"`{short(a)}`: refused below and above a bound before it is stored")
        else:
            rr.bad(fn, a, f"`{short(a)}` stores an index that has no {'upper' if not upper else 'lower'} bound: with an offset of "
                   "thousands of digits the resulting pointer cannot be printed (`ValueError: Exceeds the limit (4300 digits)`), "
                   "which is not a pointer error", construct=f"to: {short(a)} without {'an upper' if not upper else 'a lower'} bound")
    if n == 0:
        raise AnalysisError("R16.7: no index-offset store found in RelativeJSONPointer.to")
    return rr


def r16_8(ctx: Ctx) -> RuleResult:
    """The suffix of a relative pointer is a JSON Pointer whose last token may end in white space: the text that
    reaches `JSONPointer(...)` is the matched POINTER group, at most stripped on the left."""
    from .common import expand_locals

    rr = RuleResult("R16.8", "the suffix reaches the pointer parser with its trailing characters", floor=1)
    fn = ctx.repo.require_func("RelativeJSONPointer._parse")
    n = 0
    for c in calls(fn.node):
        if callee_name(c) != "JSONPointer" or not c.args:
            continue
        e = expand_locals(fn.node, c.args[0])
        if not any(isinstance(g, ast.Call) and callee_name(g) == "group" for g in ast.walk(e)):
            continue
        n += 1
        edits = []
        cur = e
        while isinstance(cur, ast.Call) and isinstance(cur.func, ast.Attribute):
            if callee_name(cur) == "group":
                break
            edits.append(cur.func.attr)
            cur = cur.func.value
        bad = [m for m in edits if m != "lstrip"]
        if not bad and isinstance(cur, ast.Call) and callee_name(cur) == "group":
            rr.ok(fn.loc(c), f"`{short(e, 60)}` is parsed as the suffix")
        else:
            rr.bad(fn, c, f"the suffix is parsed from `{short(e, 70)}`: `.{(bad or ['?'])[0]}()` removes white space at the end of the last "
                   "token (`0/x ` is read as `0/x`), so the pointer applied and printed is not the one written",
                   construct=f"_parse: suffix {short(e, 70)}")
    if n == 0:
        raise AnalysisError("R16.8: the suffix is no longer parsed by JSONPointer(<POINTER group>) in _parse")
    return rr


def r16_9(ctx: Ctx) -> RuleResult:
    """The offset applies to a final *array index*: a str token counts as one only in canonical decimal form
    (what RFC 6901 and JSONPointer._index call an index), not whenever `int()` can read it."""
    from .c04 import _pattern_canonical
    from .common import path_conditions

    rr = RuleResult("R16.9", "the index offset applies to canonical array indices only", floor=2)
    cls = ctx.repo.require_class("RelativeJSONPointer")
    to = ctx.repo.require_func("RelativeJSONPointer.to")
    po = ctx.partial
    recognisers: Set[str] = set()
    # 1. recognisers: methods of the class with one parameter that test it with int()
    for name, m in cls.methods.items():
        if name == "to":
            continue
        params = [a.arg for a in m.node.args.args if a.arg != "self"]
        for c in calls(m.node, "int"):
            if not (isinstance(c.func, ast.Name) and len(c.args) == 1 and params and path_of(c.args[0]) == params[0]):
                continue
            if any(isinstance(x, ast.Call) and callee_name(x) == "group" for x in ast.walk(m.node)):
                continue
            names = po._tynames(m, c.args[0])
            if names is not None and names <= {"int", "bool", "float"}:
                continue
            if name == "_zero_or_positive":
                continue  # digits matched by the grammar (R16.1)
            recognisers.add(name)
            ok = None
            why = "no dominating canonical-form test"
            for ev in po._facts(m, c):
                if ev.startswith("rematch:") and ev.endswith("@" + params[0]):
                    _, pat_expr, how = ev[: -len("@" + params[0])].split(":", 2)
                    if how != "fullmatch":
                        why = f"`{pat_expr}.{how}` does not anchor the end of the token"
                        continue
                    w = _pattern_canonical(ctx, m, pat_expr)
                    if w is None:
                        ok = f"dominated by {pat_expr}.fullmatch()"
                    else:
                        why = w
            if ok:
                rr.ok(m.loc(c), f"{m.qualname}: {short(c)} {ok}")
            else:
                rr.bad(m, c, f"`{short(c)}` decides whether the final token is an array index: int() also reads `01`, `+1`, `1_0` and "
                       f"non-ASCII digits, which are member names ({why}); `/a/01` with `0+1` becomes `/a/2`",
                       construct=f"{name}: {short(c)}")
    # 2. every conversion of the final token in `to` happens under such a recogniser (or an isinstance int test)
    n = 0
    from .common import expand_locals

    def same(a: ast.expr, b: ast.expr) -> bool:
        return ast.unparse(a) == ast.unparse(b) or ast.unparse(expand_locals(to.node, a)) == ast.unparse(expand_locals(to.node, b))

    for c in calls(to.node, "int"):
        if not (isinstance(c.func, ast.Name) and len(c.args) == 1):
            continue
        full = expand_locals(to.node, c.args[0])
        if not any(isinstance(x, ast.Subscript) for x in ast.walk(full)):
            continue  # not a token of the pointer
        n += 1
        guarded = False
        for t, b in path_conditions(to.node, c):
            if b and isinstance(t, ast.Call) and callee_name(t) in recognisers and t.args and same(t.args[0], c.args[0]):
                guarded = True
            if b and isinstance(t, ast.Call) and callee_name(t) == "isinstance" and len(t.args) == 2 and same(t.args[0], c.args[0]) and ast.unparse(t.args[1]) == "int":  # noqa: PLR2004
                guarded = True
        if guarded:
            rr.ok(to.loc(c), f"`{short(c)}` under the index recogniser")
        else:
            rr.bad(to, c, f"`{short(c)}` converts the final token without the index recogniser having accepted it",
                   construct=f"to: {short(c)} unguarded")
    if n == 0 and not recognisers:
        raise AnalysisError("R16.9: neither an index recogniser nor a conversion of the final token was found")
    return rr


def r16_10(ctx: Ctx) -> RuleResult:
    """Which final tokens take an index offset: every int (0 included - the first element of an array) and every str
    in canonical decimal form; nothing else.  The recogniser is executed abstractly on a covering set of tokens."""
    from sa.peval import UNKNOWN

    from .model import RAISES
    from .model import MObj
    from .model import Model

    rr = RuleResult("R16.10", "the index recogniser accepts every array index and nothing else", floor=10)
    cls = ctx.repo.require_class("RelativeJSONPointer")
    fn = cls.methods.get("_int_like")
    if fn is None:
        raise AnalysisError("R16.10: RelativeJSONPointer._int_like not found")
    samples = [(0, True), (1, True), (12, True), (-1, True), ("0", True), ("7", True), ("12", True),
               ("01", False), ("+1", False), ("1_0", False), ("a", False), ("", False), ("-", False)]
    for tok, want in samples:
        model = Model(ctx, "R16.10")
        model.whole_bodies = True
        obj = MObj(model, "RelativeJSONPointer", {"origin": 0, "index": 1, "pointer": UNKNOWN})
        got = model.call(obj, "_int_like", [tok])
        if got is UNKNOWN or got is RAISES:
            raise AnalysisError(f"R16.10: _int_like({tok!r}) cannot be determined ({got!r})")
        if bool(got) == want and isinstance(got, bool):
            rr.ok(fn.loc(), f"_int_like({tok!r}) is {want}")
        else:
            rr.bad(fn, fn.node, f"_int_like({tok!r}) is {got!r}: " + (
                "an index offset is silently dropped for this array index (`/foo/0` with `0+1` stays `/foo/0`)" if want else
                "an index offset is applied to a token that is a member name"), construct=f"_int_like({tok!r}) -> {got!r}")
    return rr


def r16_11(ctx: Ctx) -> RuleResult:
    """`pointer.to(rel)` is `RelativeJSONPointer(rel).to(pointer)`: the second entry point has no logic of its own, so
    the two cannot disagree (a shortcut there - e.g. for the root pointer - skips the refusals of the first)."""
    rr = RuleResult("R16.11", "JSONPointer.to only delegates to RelativeJSONPointer.to", floor=1)
    fn = ctx.repo.require_func("JSONPointer.to")
    rets = [r for r in ast.walk(fn.node) if isinstance(r, ast.Return)]
    if not rets:
        raise AnalysisError("R16.11: JSONPointer.to returns nothing")
    for r in rets:
        v = r.value
        ok = (isinstance(v, ast.Call) and isinstance(v.func, ast.Attribute) and v.func.attr == "to" and len(v.args) == 1 and path_of(v.args[0]) == "self"
              and not v.keywords)
        if ok:
            rr.ok(fn.loc(r), f"`{short(r)}`")
        else:
            rr.bad(fn, r, f"`{short(r)}` is a result of JSONPointer.to that does not come from RelativeJSONPointer.to(self): the two ways of applying a "
                   "relative pointer disagree (the refusals for too many steps / `#` at the root are skipped)", construct=f"JSONPointer.to: {short(r, 60)}")
    return rr


#: (base pointer, relative pointer, tokens of the result or None where the draft forbids the application)
RELATIVE_SAMPLES = (
    ("/a/b", "0", ["a", "b"]), ("/a/b", "1", ["a"]), ("/a/b", "2", []), ("/a/b", "3", None), ("", "0", []), ("", "1", None),
    ("/a/b", "1/c", ["a", "c"]), ("/a/b", "0/c/d", ["a", "b", "c", "d"]), ("/a/b", "2/x~1y", ["x/y"]), ("/a/b", "0/m~0n", ["a", "b", "m~n"]), ("", "0/x", ["x"]),
    ("/a/b", "1/", ["a", ""]), ("/a/b", "0/\u00e9", ["a", "b", "\u00e9"]), ("/a/b", "1/x\ny/z", ["a", "x\ny", "z"]),
    ("/a/1", "0+1", ["a", "2"]), ("/a/1", "0-1", ["a", "0"]), ("/a/1", "0-2", None), ("/a/10", "0+15", ["a", "25"]), ("/a/2/c", "1-2", ["a", "0"]),
    ("/a/2/c", "1+1/d", ["a", "3", "d"]), ("/7", "0+100000000000", ["100000000007"]),
    ("/a/b", "0#", ["a", "#b"]), ("/a/3", "1#", ["#a"]), ("/a/3", "0#", ["a", "#3"]), ("", "0#", None), ("/a/b", "2#", None), ("/a/3/x", "1+2#", ["a", "#5"]),
)
RELATIVE_TEXTS = ("0", "1", "10", "0/a", "2/a~1b/c~0d", "0#", "3#", "1+2/x", "3-1#", "0/", "1/\u00e9", "0/a b", "10/0/1", "0+12345678901234567890/x", "1/~01",
                  "0/a\nb", "1/\n", "0/x/\r\n/y", "2/\u2028")


def r16_12(ctx: Ctx) -> RuleResult:
    """The behaviour itself on covering samples, by abstract execution (rules/model.py) of the constructors, of
    `RelativeJSONPointer.__str__` and of `JSONPointer.to`: printing a parsed relative pointer gives back its text; and
    applying a relative pointer to a base gives the tokens the draft defines - trailing tokens removed, the offset
    added to a final index, the suffix appended or the key marker set - or is refused with a relative-pointer error
    where the draft forbids it (too many steps, an index below zero, `#` at the root)."""
    from sa.peval import UNKNOWN

    from .model import RAISES
    from .model import MObj
    from .model import Model
    from .model import _ConstructorRaises

    rr = RuleResult("R16.12", "relative pointers print as written and apply as the draft defines, on covering samples", floor=len(RELATIVE_SAMPLES) + len(RELATIVE_TEXTS))
    rel_cls = ctx.repo.require_class("jsonpath.pointer.RelativeJSONPointer")
    s_fn = ctx.repo.find_method(rel_cls, "__str__")
    to_fn = ctx.repo.find_method(rel_cls, "to")
    if s_fn is None or to_fn is None:
        raise AnalysisError("R16.12: RelativeJSONPointer.__str__ / to not found")
    for text in RELATIVE_TEXTS:
        model = Model(ctx, "R16.12")
        model.whole_bodies = model.auto_construct = True
        try:
            obj = model.new("jsonpath.pointer.RelativeJSONPointer", text)
        except _ConstructorRaises:
            rr.bad(to_fn, to_fn.node, f"the relative pointer {text!r} is refused", construct=f"RelativeJSONPointer({text!r}) raises")
            continue
        got = model.call(obj, "__str__", [])
        if got is UNKNOWN or got is RAISES or not isinstance(got, str):
            raise AnalysisError(f"R16.12: the text of the parsed relative pointer {text!r} cannot be determined")
        if got == text:
            rr.ok(s_fn.loc(), f"str(RelativeJSONPointer({text!r})) == {text!r}")
        else:
            rr.bad(s_fn, s_fn.node, f"the relative pointer {text!r} prints as {got!r}", construct=f"str(RelativeJSONPointer({text!r})) == {got!r}")
    for base, rel, want in RELATIVE_SAMPLES:
        model = Model(ctx, "R16.12")
        model.whole_bodies = model.auto_construct = model.exact_exceptions = True
        try:
            b = model.new("jsonpath.pointer.JSONPointer", base)
        except _ConstructorRaises:
            raise AnalysisError(f"R16.12: the base pointer {base!r} is refused") from None
        r = model.call(b, "to", [rel])
        shown = f"JSONPointer({base!r}).to({rel!r})"
        if r is RAISES:
            if want is None:
                c = model.last_raised
                if not c:
                    raise AnalysisError(f"R16.12: the class of the exception that refuses {shown} cannot be determined")
                if ctx.repo.is_subclass(c, "RelativeJSONPointerError"):
                    rr.ok(to_fn.loc(), f"{shown} is refused with {c.split('.')[-1]}")
                else:
                    rr.bad(to_fn, to_fn.node, f"{shown} is refused with {c.split('.')[-1]}, which is not a relative-pointer error (`except RelativeJSONPointerError` "
                           "does not catch it)", construct=f"{shown} raises {c.split('.')[-1]}")
            else:
                rr.bad(to_fn, to_fn.node, f"{shown} is refused; the draft defines the result {want}", construct=f"{shown} raises")
            continue
        parts = r.fields.get("parts", UNKNOWN) if isinstance(r, MObj) else UNKNOWN
        if parts is UNKNOWN or not isinstance(parts, (tuple, list)) or any(not isinstance(x, (str, int)) or isinstance(x, bool) for x in parts):
            raise AnalysisError(f"R16.12: the result of {shown} cannot be determined")
        tokens = [str(x) for x in parts]
        if want is None:
            rr.bad(to_fn, to_fn.node, f"{shown} gives the tokens {tokens}; the draft forbids this application (too many steps, an index below zero, or `#` at the root)",
                   construct=f"{shown} -> {tokens} instead of an error")
        elif tokens == want:
            rr.ok(to_fn.loc(), f"{shown} -> {tokens}")
        else:
            rr.bad(to_fn, to_fn.node, f"{shown} gives the tokens {tokens}; the draft defines {want}", construct=f"{shown} -> {tokens} instead of {want}")
    return rr


RULES = [r16_1, r16_2, r16_3, r16_4, r16_5, r16_6, r16_7, r16_8, r16_9, r16_10, r16_11, r16_12]
