"""C02 - RFC 9535 filter expressions select exactly the nodes the RFC makes true.

R2.1 comparison kind discipline (ordering only number/number or string/string,
     equality never identifies a boolean with a number and is deep only through
     the repo's own equality routine, Nothing equals only Nothing)
R2.2 queries always evaluate to node lists; unwrapping only for comparisons
R2.3 context binding (`$` root, `@` candidate, key, extra context)
R2.4 precedence table
R2.5 comparison operator wiring
R2.6 standard function table and match/search primitives
"""

from __future__ import annotations

import ast
from typing import Dict
from typing import FrozenSet
from typing import List
from typing import Optional
from typing import Set
from typing import Tuple

from sa.consteval import EnumMember
from sa.consteval import Instance
from sa.consteval import NotConst
from sa.flow import Flow
from sa.kinds import ALL_KINDS
from sa.kinds import ARRAY
from sa.kinds import BOOLEAN
from sa.kinds import DECIMAL
from sa.kinds import FLOAT
from sa.kinds import INT
from sa.kinds import KindDomain
from sa.kinds import NODELIST
from sa.kinds import OBJECT
from sa.kinds import STRING
from sa.kinds import UNDEFINED
from sa.kinds import path_of
from sa.loader import AnalysisError
from sa.loader import FuncInfo
from sa.loader import short
from sa.report import RuleResult

from . import Ctx
from .common import own_params
from .common import callee_name
from .common import calls
from .common import kw
from .common import match_sites
from .common import must_flow
from .common import _split_cond
from .common import isinstance_classes
from .common import path_conditions

PURE_NUMBERS = frozenset({INT, FLOAT, DECIMAL})
CONTAINERS = frozenset({OBJECT, ARRAY})


def _object_params(ctx: Ctx, fn: FuncInfo) -> List[str]:
    out = []
    for a in fn.node.args.args + fn.node.args.kwonlyargs:
        if a.arg in ("self", "cls"):
            continue
        ann = a.annotation
        d = ctx.repo.dotted(ann) if ann is not None else None
        if ann is None or (d or "").split(".")[-1] in ("object", "Any"):
            out.append(a.arg)
    return out


def equality_routines(ctx: Ctx) -> List[FuncInfo]:
    """Functions that implement JSON value equality: two value parameters, a
    test for `bool`, and recursion into containers."""
    out = []
    for fn in ctx.repo.functions.values():
        params = [a.arg for a in fn.node.args.args if a.arg not in ("self", "cls")]
        if len(params) != 2:
            continue
        recursive = any(callee_name(c) == fn.name for c in calls(fn.node))
        bool_test = any(
            isinstance(c.func, ast.Name) and c.func.id == "isinstance" and len(c.args) == 2
            and any(isinstance(n, ast.Name) and n.id == "bool" for n in ast.walk(c.args[1]))
            for c in calls(fn.node)
        )
        if recursive and bool_test:
            out.append(fn)
    return out


def comparison_functions(ctx: Ctx) -> List[FuncInfo]:
    env = ctx.repo.require_class("JSONPathEnvironment")
    compare = env.methods.get("compare")
    if compare is None:
        raise AnalysisError("JSONPathEnvironment.compare not found")
    reach = ctx.callgraph.reachable([compare])
    fns = [ctx.repo.functions[q] for q in reach]
    for r in equality_routines(ctx):
        if r not in fns:
            fns.append(r)
    return fns


def check_equality_routines(ctx: Ctx, rr: RuleResult) -> None:
    """Structure of the deep-equality routine(s): containers of different size
    differ; a member absent on one side is not identified with a null member."""
    # (d) structure of the deep-equality routine: containers of different size differ, a member
    #     that is absent on one side is not identified with a null member
    for fn in equality_routines(ctx):
        params = [a.arg for a in fn.node.args.args if a.arg not in ("self", "cls")]
        n_branch = 0
        for n in ast.walk(fn.node):
            if isinstance(n, ast.Call) and callee_name(n) == "isinstance" and len(n.args) == 2 and path_of(n.args[0]) == params[0]:
                names_ = {x.id for x in ast.walk(n.args[1]) if isinstance(x, ast.Name)}
                if names_ & {"Mapping", "dict", "Sequence", "list", "MutableMapping", "MutableSequence"}:
                    n_branch += 1
        # wherever the two containers are walked together, their sizes are known to be equal
        def size_events(t: ast.expr, branch: bool) -> List[str]:
            if (
                isinstance(t, ast.Compare) and len(t.ops) == 1 and isinstance(t.ops[0], (ast.Eq, ast.NotEq))
                and all(isinstance(x, ast.Call) and callee_name(x) == "len" and len(x.args) == 1 for x in (t.left, t.comparators[0]))
                and {path_of(t.left.args[0]), path_of(t.comparators[0].args[0])} == set(params)  # type: ignore[union-attr]
                and isinstance(t.ops[0], ast.Eq) == branch
            ):
                return ["sizes_equal@"]
            return []

        flow = must_flow(fn.node, refine_events=size_events)
        walks: List[Tuple[ast.AST, frozenset]] = []
        for n in ast.walk(fn.node):
            if isinstance(n, (ast.For, ast.AsyncFor)) and any(isinstance(x, ast.Name) and x.id in params for x in ast.walk(n.iter)):
                walks.append((n, flow.pre.get(id(n)) or frozenset()))
            elif isinstance(n, (ast.GeneratorExp, ast.ListComp, ast.SetComp, ast.DictComp)) and any(
                isinstance(x, ast.Name) and x.id in params for x in ast.walk(n.generators[0].iter)
            ):
                walks.append((n, flow.at.get(id(n)) or frozenset()))
        unsized = [n for n, st in walks if "sizes_equal@" not in st]
        if n_branch and len(walks) >= n_branch and not unsized:
            rr.ok(fn.loc(), f"{fn.qualname}: sizes known to be equal at each of the {len(walks)} container walks")
        else:
            rr.bad(fn, unsized[0] if unsized else fn.node, f"{fn.qualname} compares containers without comparing their sizes in every container "
                   "branch (zip / member iteration would ignore the extra elements)",
                   construct=f"{fn.name}: {len(walks) - len(unsized)} sized walks for {n_branch} container branches")
        for c in calls(fn.node, "get"):
            if isinstance(c.func, ast.Attribute) and path_of(c.func.value) in params:
                dflt = c.args[1] if len(c.args) > 1 else None
                if dflt is None or isinstance(dflt, ast.Constant):
                    rr.bad(fn, c, f"`{short(c)}` reads a missing member as "
                           f"{'None' if dflt is None else repr(dflt.value)}, which is itself a JSON value: "
                           "{\"a\": null} would equal {\"b\": null}", construct=short(c))
        for n in ast.walk(fn.node):
            if isinstance(n, ast.Subscript) and path_of(n.value) in params and isinstance(n.ctx, ast.Load) and not isinstance(n.slice, ast.Slice):
                site_facts = ctx.partial._facts(fn, n)
                kp = path_of(n.slice)
                if kp and f"in:{path_of(n.value)}@{kp}" in site_facts:
                    rr.ok(fn.loc(n), f"{fn.qualname}: `{short(n)}` after a membership test of the same key")
                else:
                    rr.bad(fn, n, f"`{short(n)}` is read without a test that the member exists on that side",
                           construct=short(n))


_KIND_CLASSES = {
    "null": set(), "boolean": {"bool", "int"}, "number": {"int", "float", "Decimal", "Number", "Real"},
    "string": {"str", "Sequence"}, "array": {"Sequence", "list", "MutableSequence"}, "object": {"Mapping", "dict", "MutableMapping"},
}


def check_equality_kind_table(ctx: Ctx, rr: RuleResult) -> None:
    """Values of different JSON kinds are never equal.  The deep-equality routine is partially evaluated for every
    ordered pair of different kinds (isinstance tests decided by the kinds; a str is a Sequence, a bool is an int):
    every way out must be `return False`, or Python `==` of the two operands where that is safe (no boolean against
    a number - Python has 1 == True - and not two containers)."""
    from sa.peval import Explorer

    for fn in equality_routines(ctx):
        params = [a.arg for a in fn.node.args.args if a.arg not in ("self", "cls")]
        if len(params) < 2:  # noqa: PLR2004
            continue
        left, right = params[0], params[1]
        for k1 in _KIND_CLASSES:
            for k2 in _KIND_CLASSES:
                if k1 == k2:
                    continue

                def oracle(t: ast.expr, env: dict, k1: str = k1, k2: str = k2) -> Optional[bool]:  # type: ignore[type-arg]
                    ic = isinstance_classes(t)
                    if ic is not None and ic[0] in (left, right):
                        kind = k1 if ic[0] == left else k2
                        known = set().union(*_KIND_CLASSES.values())
                        if not set(ic[1]) <= known:
                            return None
                        return bool(set(ic[1]) & _KIND_CLASSES[kind])
                    if isinstance(t, ast.Compare) and len(t.ops) == 1 and isinstance(t.ops[0], (ast.Is, ast.IsNot)) and isinstance(
                            t.comparators[0], ast.Constant) and t.comparators[0].value is None and path_of(t.left) in (left, right):
                        kind = k1 if path_of(t.left) == left else k2
                        return (kind == "null") == isinstance(t.ops[0], ast.Is)
                    return None

                ex = Explorer(ctx.folder, fn, oracle, enter_loops=True)
                outs = ex.run({})
                bad_out = None
                for k, n, v in outs:
                    if k == "raise":
                        continue
                    if k == "return" and isinstance(n, ast.Return):
                        rv = n.value
                        if v is False or (isinstance(rv, ast.Constant) and rv.value is False):
                            continue
                        py_eq = (isinstance(rv, ast.Compare) and len(rv.ops) == 1 and isinstance(rv.ops[0], ast.Eq)
                                 and {path_of(rv.left), path_of(rv.comparators[0])} == {left, right})
                        containers = {k1, k2} <= {"array", "object"}
                        bool_num = {k1, k2} == {"boolean", "number"}
                        if py_eq and not containers and not bool_num:
                            continue
                    bad_out = (k, n, v)
                    break
                if bad_out is None:
                    rr.ok(fn.loc(), f"{fn.qualname}: {k1} against {k2} is never equal")
                else:
                    k, n, v = bad_out
                    shown = short(n) if n is not None else "the end of the function"
                    rr.bad(fn, n if n is not None else fn.node, f"{fn.qualname}: with a {k1} on the left and a {k2} on the right the routine can "
                           f"leave through `{shown}`: values of different JSON kinds must compare unequal "
                           + ("(an array would equal the string made of its one-character items)" if {k1, k2} == {"array", "string"} else ""),
                           construct=f"{fn.name}: {k1} vs {k2} -> {shown}")


def r2_1(ctx: Ctx) -> RuleResult:
    rr = RuleResult("R2.1", "comparison kind discipline", floor=3)
    for fn in comparison_functions(ctx):
        params = _object_params(ctx, fn)
        if len(params) < 2:
            continue
        dom = KindDomain(defaults={})
        flow = Flow(fn.node, dom)
        for node in ast.walk(fn.node):
            if not isinstance(node, ast.Compare) or len(node.ops) != 1:
                continue
            lp, rp = path_of(node.left), path_of(node.comparators[0])
            if lp not in params or rp not in params:
                continue
            st = flow.at.get(id(node))
            if st is None:
                continue
            lk, rk = dom.lookup(st, lp), dom.lookup(st, rp)
            op = node.ops[0]
            if isinstance(op, (ast.Lt, ast.LtE, ast.Gt, ast.GtE)):
                if (lk <= PURE_NUMBERS and rk <= PURE_NUMBERS) or (lk <= {STRING} and rk <= {STRING}):
                    rr.ok(fn.loc(node), f"{fn.qualname}: `{short(node)}` with {sorted(lk)} / {sorted(rk)}")
                else:
                    extra = sorted((lk | rk) - PURE_NUMBERS) if (lk | rk) - {STRING} else sorted(lk | rk)
                    rr.bad(fn, node,
                           f"Python ordering `{short(node)}` is reachable with operand kinds {sorted(lk)} and "
                           f"{sorted(rk)}: RFC 9535 orders only two numbers or two strings "
                           "(isinstance(x, int) admits booleans)",
                           construct=f"{short(node)} with kinds {sorted(lk)} / {sorted(rk)}")
            elif isinstance(op, (ast.Eq, ast.NotEq)):
                problems = []
                both_bool = lk <= {BOOLEAN} and rk <= {BOOLEAN}
                if not both_bool and (BOOLEAN in lk or BOOLEAN in rk):
                    # one side may be a boolean while the other may be a number
                    other = rk if BOOLEAN in lk else lk
                    if (other | lk | rk) & PURE_NUMBERS:
                        problems.append("a boolean operand may meet a number (True == 1 in Python)")
                if lk & CONTAINERS and rk & CONTAINERS:
                    problems.append("both operands may be containers, so Python compares them deeply and "
                                    "identifies true with 1 inside them")
                if problems:
                    rr.bad(fn, node, f"Python `{short(node)}` on JSON values: " + "; ".join(problems),
                           construct=f"{short(node)} with kinds {sorted(lk)} / {sorted(rk)}")
                else:
                    rr.ok(fn.loc(node), f"{fn.qualname}: `{short(node)}` with {sorted(lk)} / {sorted(rk)}")
    check_equality_routines(ctx, rr)
    check_equality_kind_table(ctx, rr)
    # (c) Nothing equals only Nothing
    und = ctx.repo.get_class("jsonpath.filter._Undefined")
    if und is None or "__eq__" not in und.methods:
        raise AnalysisError("R2.1: filter._Undefined.__eq__ not found")
    eq = und.methods["__eq__"]
    rets = [n for n in ast.walk(eq.node) if isinstance(n, ast.Return)]
    ok = bool(rets)
    other = eq.node.args.args[1].arg

    def is_nothing_test(t: ast.expr) -> bool:
        return (isinstance(t, ast.Compare) and len(t.ops) == 1 and isinstance(t.ops[0], ast.Is) and path_of(t.left) == other
                and isinstance(t.comparators[0], ast.Name) and "UNDEFINED" in t.comparators[0].id)

    def may_be_true(v: Optional[ast.expr], conds) -> bool:  # type: ignore[no-untyped-def]
        """May `v` be true for an `other` that is neither Nothing nor an empty node list?"""
        if v is None or (isinstance(v, ast.Constant) and not v.value):
            return False
        if any(is_nothing_test(t) and b for t, b in conds):
            return False
        is_nl = any((isinstance_classes(t) or ("", []))[1] == ["NodeList"] and b for t, b in conds)
        if isinstance(v, ast.BoolOp) and isinstance(v.op, ast.Or):
            return any(may_be_true(x, conds) for x in v.values)
        if isinstance(v, ast.BoolOp) and isinstance(v.op, ast.And):
            conds2 = list(conds)
            for x in v.values[:-1]:
                conds2.extend(_split_cond(x, True))
            return may_be_true(v.values[-1], conds2)
        if is_nothing_test(v):
            return False
        if isinstance(v, ast.Call) and callee_name(v) == "empty" and isinstance(v.func, ast.Attribute) and path_of(v.func.value) == other:
            return not is_nl
        return True

    for r in rets:
        if may_be_true(r.value, path_conditions(eq.node, r)):
            ok = False
    if ok:
        rr.ok(eq.loc(), "_Undefined.__eq__: equal only to Nothing / an empty node list")
    else:
        rr.bad(eq, eq.node, "Nothing must equal only Nothing (or an empty node list)",
               construct="_Undefined.__eq__")
    return rr


def subquery_starts(ctx: Ctx, cls, fn: FuncInfo):  # type: ignore[no-untyped-def]
    """How does a filter path node start its sub-query?  For every start found in
    `fn`: dict(call=<ast.Call>, start=<path of the start value>, root=<path of the
    root that nested filters will see>, fc=<path of the filter context handed on>).

    (A) self.path.finditer[_async](X, filter_context=F): starts at X and *re-roots* at X
    (B) self.path.resolve[_async](N) with N a node constructed by JSONPathMatch(...)
        (directly or through a helper method of the class)
    """
    ctxp = fn.node.args.args[1].arg if len(fn.node.args.args) > 1 else "context"
    out = []
    for c in calls(fn.node):
        name = callee_name(c)
        if not (isinstance(c.func, ast.Attribute) and path_of(c.func.value) == "self.path"):
            continue
        if name in ("finditer", "finditer_async") and c.args:
            x = path_of(c.args[0])
            fc = kw(c, "filter_context")
            out.append({"call": c, "start": x, "root": x, "fc": path_of(fc) if fc is not None else None, "ctx": ctxp})
        elif name in ("resolve", "resolve_async") and c.args:
            node = c.args[0]
            mapping = {ctxp: ctxp}
            ctor = None
            if isinstance(node, ast.Call) and callee_name(node) in ("JSONPathMatch", "match_class"):
                ctor = node
            elif isinstance(node, ast.Call) and isinstance(node.func, ast.Attribute) and path_of(node.func.value) == "self":
                helper = ctx.repo.find_method(cls, node.func.attr)
                if helper is not None:
                    hparams = own_params(helper)
                    for hp, a in zip(hparams, node.args):
                        if path_of(a):
                            mapping[hp] = path_of(a)
                    rets = [r for r in ast.walk(helper.node) if isinstance(r, ast.Return)]
                    if len(rets) == 1 and isinstance(rets[0].value, ast.Call) and callee_name(rets[0].value) in ("JSONPathMatch", "match_class"):
                        ctor = rets[0].value
            if ctor is None:
                out.append({"call": c, "start": None, "root": None, "fc": None, "ctx": ctxp})
                continue

            def mapped(e):  # type: ignore[no-untyped-def]
                p = path_of(e) if e is not None else None
                if p is None:
                    return None
                head, _, rest = p.partition(".")
                return mapping.get(head, head) + ("." + rest if rest else "")

            start_e = kw(ctor, "obj")
            if (isinstance(start_e, ast.IfExp) and path_of(start_e.test) == "self.path.fake_root" and isinstance(start_e.body, ast.List)
                    and len(start_e.body.elts) == 1 and ast.dump(start_e.body.elts[0]) == ast.dump(start_e.orelse)):
                # `[X] if self.path.fake_root else X`: what finditer() does for a `^` query
                start_e = start_e.orelse
            out.append({"call": c, "start": mapped(start_e), "root": mapped(kw(ctor, "root")),
                        "fc": mapped(kw(ctor, "filter_context")), "ctx": ctxp})
    return out


def path_classes(ctx: Ctx):  # type: ignore[no-untyped-def]
    """The concrete filter path classes (an intermediate base that only its subclasses instantiate is not one)."""
    base = ctx.repo.require_class("jsonpath.filter.Path")
    return [c for c in ctx.repo.subclasses(base, strict=True) if not ctx.repo.subclasses(c, strict=True)]


def path_method(ctx: Ctx, cls, name: str):  # type: ignore[no-untyped-def]
    """`evaluate` / `evaluate_async` of a concrete path class: its own, or the one it inherits from an intermediate base
    of the package (helpers it calls on `self` are then looked up in the concrete class). The abstract `Path` has none."""
    fn = ctx.repo.find_method(cls, name)
    if fn is None or fn.cls is None or fn.cls.name in ("Path", "FilterExpression"):
        return None
    return fn


def _is_nodelist_expr(ctx: Ctx, cls, v: Optional[ast.expr], depth: int) -> bool:  # type: ignore[no-untyped-def]
    """NodeList(...) or a call of a helper method all of whose returns are."""
    if isinstance(v, ast.Await):
        v = v.value
    if not isinstance(v, ast.Call):
        return False
    if callee_name(v) == "NodeList":
        return True
    if depth < 2 and isinstance(v.func, ast.Attribute) and path_of(v.func.value) == "self":
        helper = ctx.repo.find_method(cls, v.func.attr)
        if helper is not None:
            rets = [r for r in ast.walk(helper.node) if isinstance(r, ast.Return)]
            return bool(rets) and all(_is_nodelist_expr(ctx, cls, r.value, depth + 1) for r in rets)
    return False


def r2_2(ctx: Ctx) -> RuleResult:
    rr = RuleResult("R2.2", "filter queries evaluate to node lists; unwrapping only for comparisons", floor=8)
    n_methods = 0
    for cls in path_classes(ctx):
        for name in ("evaluate", "evaluate_async"):
            fn = path_method(ctx, cls, name)
            if fn is None:
                continue
            n_methods += 1
            for r in ast.walk(fn.node):
                if not isinstance(r, ast.Return):
                    continue
                v = r.value
                if isinstance(v, ast.Await):
                    v = v.value
                if _is_nodelist_expr(ctx, cls, v, 0):
                    rr.ok(fn.loc(r), f"{fn.qualname}: returns {short(v, 50)}")
                else:
                    rr.bad(fn, r, "a filter query returns something that is not a NodeList: consumers decide "
                           "existence-versus-value by isinstance(x, NodeList), so `$[?@]` becomes a truthiness "
                           "test and count()/value() receive a bare value",
                           construct=short(r))
    if n_methods < 6:
        raise AnalysisError(f"R2.2: only {n_methods} evaluate methods on Path subclasses (floor 6)")
    # unwrapping x = x[0].obj only when not logical
    infix = ctx.repo.require_class("InfixExpression")
    for name in ("evaluate", "evaluate_async"):
        fn = infix.methods.get(name)
        if fn is None:
            raise AnalysisError(f"InfixExpression.{name} not found")

        def refine(test: ast.expr, branch: bool) -> List[str]:
            if path_of(test) == "self.logical" and not branch:
                return ["not_logical@"]
            return []

        def refine2(test: ast.expr, branch: bool) -> List[str]:
            ev = refine(test, branch)
            if (
                isinstance(test, ast.Compare) and len(test.ops) == 1 and isinstance(test.ops[0], (ast.Eq, ast.NotEq))
                and isinstance(test.left, ast.Call) and callee_name(test.left) == "len" and test.left.args
                and isinstance(test.comparators[0], ast.Constant) and test.comparators[0].value == 1
                and branch == isinstance(test.ops[0], ast.Eq)
            ):
                p = path_of(test.left.args[0])
                if p:
                    ev.append("single@" + p)
            return ev

        flow = must_flow(fn.node, refine_events=refine2)
        # every unwrapping `X[0].obj`, wherever it is written
        unwraps = [
            n for n in ast.walk(fn.node)
            if isinstance(n, ast.Attribute) and n.attr == "obj" and isinstance(n.value, ast.Subscript)
            and isinstance(n.value.slice, ast.Constant) and n.value.slice.value == 0 and path_of(n.value.value)
        ]
        evaluated = [c for c in calls(fn.node) if callee_name(c) in ("evaluate", "evaluate_async")]
        if len(evaluated) < 2:
            raise AnalysisError(f"R2.2: cannot find the evaluated operands in {fn.qualname}")
        if len(unwraps) < 2:
            rr.bad(fn, fn.node, "the operands of a comparison are no longer unwrapped from single-node lists "
                   f"({len(unwraps)} unwrapping expression(s) for two operands)", construct=f"{name}: unwrapping missing")
        for n in unwraps:
            var = path_of(n.value.value)  # type: ignore[attr-defined]
            st = flow.at.get(id(n)) or frozenset()
            if "not_logical@" not in st:
                rr.bad(fn, n, "a node list is unwrapped to a value for a logical operator too: "
                       "`@.a && @.b` would then test the truthiness of the values instead of existence",
                       construct=short(n))
            elif "single@" + str(var) not in st:
                rr.bad(fn, n, f"the operand `{var}` is converted with `{short(n)}` without being a node list of "
                       "exactly one node: an empty node list must stay Nothing (it equals only Nothing) and a "
                       "multi-node list is not a value", construct=short(n))
            else:
                rr.ok(fn.loc(n), f"{fn.qualname}: `{short(n)}` only for a single-node list under a comparison")
        # nothing else turns an operand into one of its parts
        for n in ast.walk(fn.node):
            if isinstance(n, ast.Subscript) and isinstance(n.ctx, ast.Load) and not any(n is u.value for u in unwraps):
                rr.bad(fn, n, f"`{short(n)}` takes an operand apart other than by `[0].obj` of a single-node list", construct=short(n))
    return rr


def r2_3(ctx: Ctx, rule: str = "R2.3") -> RuleResult:
    rr = RuleResult(rule, "filter context binding: $ root, @ candidate, key, extra context", floor=28)
    flt = ctx.repo.require_class("jsonpath.selectors.Filter")
    n_ctx = 0
    for name in ("resolve", "resolve_async"):
        fn = flt.methods.get(name)
        if fn is None:
            raise AnalysisError(f"Filter.{name} not found")
        for loop in [n for n in ast.walk(fn.node) if isinstance(n, ast.For)]:
            if not (isinstance(loop.target, ast.Tuple) and len(loop.target.elts) == 2):
                continue
            keyv, valv = (path_of(loop.target.elts[0]), path_of(loop.target.elts[1]))
            it = loop.iter
            subject = None
            if isinstance(it, ast.Call) and callee_name(it) in ("items", "enumerate"):
                subject = path_of(it.func.value) if callee_name(it) == "items" else (path_of(it.args[0]) if it.args else None)  # type: ignore[union-attr]
            if subject is None or not subject.endswith(".obj"):
                continue
            parent = subject[: -len(".obj")]
            for c in calls(loop, "FilterContext"):
                n_ctx += 1
                want = {
                    "current": valv, "current_key": keyv, "root": f"{parent}.root",
                }
                bad = []
                for k, v in want.items():
                    got = kw(c, k)
                    if got is None or path_of(got) != v:
                        bad.append(f"{k}={short(got) if got is not None else 'missing'} (expected {v})")
                ec = kw(c, "extra_context")
                if not (isinstance(ec, ast.Call) and callee_name(ec) == "filter_context" and path_of(ec.func.value) == parent):  # type: ignore[union-attr]
                    bad.append(f"extra_context={short(ec) if ec is not None else 'missing'} (expected {parent}.filter_context())")
                if bad:
                    rr.bad(fn, c, "the per-child evaluation context is bound wrongly: " + "; ".join(bad),
                           construct=short(c, 160))
                else:
                    rr.ok(fn.loc(c), f"{fn.qualname}: FilterContext(current={valv}, key={keyv}, root={parent}.root)")
    if n_ctx < 4:
        raise AnalysisError(f"R2.3: only {n_ctx} FilterContext constructions found in Filter.resolve* (floor 4)")
    for fn, call in match_sites(ctx.repo):
        parent = path_of(kw(call, "parent")) if kw(call, "parent") is not None else None
        root = kw(call, "root")
        fc = kw(call, "filter_context")
        ok = (
            parent is not None
            and root is not None and path_of(root) == f"{parent}.root"
            and isinstance(fc, ast.Call) and callee_name(fc) == "filter_context" and path_of(fc.func.value) == parent  # type: ignore[union-attr]
        )
        if ok:
            rr.ok(fn.loc(call), f"{fn.qualname}: child match inherits root and filter context of {parent}")
        else:
            rr.bad(fn, call, "a child match must carry its parent's root and filter context "
                   "(`$` inside a nested filter denotes the query argument at every depth)",
                   construct=f"match_class(root={short(root) if root is not None else None}, filter_context={short(fc) if fc is not None else None})")
    reads = {"RootPath": "root", "SelfPath": "current", "FilterContextPath": "extra_context"}
    for cname, attr in reads.items():
        cls = ctx.repo.require_class("jsonpath.filter." + cname)
        for name in ("evaluate", "evaluate_async"):
            fn = cls.methods.get(name)
            if fn is None:
                raise AnalysisError(f"{cname}.{name} not found")
            starts = subquery_starts(ctx, cls, fn)
            if not starts:
                raise AnalysisError(f"R2.3: {cname}.{name} does not evaluate its query")
            for st in starts:
                ctxp = st["ctx"]
                c = st["call"]
                if st["start"] is None:
                    raise AnalysisError(f"R2.3: cannot see how {cname}.{name} builds the start node of its query")
                if st["start"] != f"{ctxp}.{attr}":
                    rr.bad(fn, c, f"{cname} must start its query at context.{attr}, not at {st['start']}",
                           construct=f"{cname}.{name}: starts at {st['start']}")
                elif st["root"] != f"{ctxp}.root":
                    rr.bad(fn, c, f"{cname} evaluates its query with {st['root']} as the root: a filter nested in "
                           "that query would resolve `$` against it instead of the query argument "
                           "(`$.items[?@.a[?@.b == $.x]]`)", construct=f"{cname}.{name}: nested root is {st['root']}")
                else:
                    rr.ok(fn.loc(c), f"{fn.qualname}: query starts at context.{attr}, nested `$` stays context.root")
    return rr


RFC_COMPARISON_TOKENS = ("TOKEN_EQ", "TOKEN_NE", "TOKEN_LT", "TOKEN_LE", "TOKEN_GT", "TOKEN_GE")


def token_const(ctx: Ctx, name: str) -> str:
    v = ctx.folder.global_value(ctx.repo.modules["jsonpath.token"], name)
    if not isinstance(v, str):
        raise AnalysisError(f"token constant {name} cannot be folded")
    return v


def r2_4(ctx: Ctx) -> RuleResult:
    rr = RuleResult("R2.4", "precedence of ||, &&, comparisons and !", floor=4)
    parser = ctx.repo.require_class("Parser")
    try:
        prec = ctx.folder.class_attr(parser, "PRECEDENCES")
    except NotConst as err:
        raise AnalysisError(f"Parser.PRECEDENCES cannot be folded: {err}") from err
    where = f"{parser.module.relpath}:{parser.node.lineno}"
    t = {n: token_const(ctx, n) for n in RFC_COMPARISON_TOKENS + ("TOKEN_AND", "TOKEN_OR", "TOKEN_NOT")}
    for n, k in t.items():
        if k not in prec:
            raise AnalysisError(f"R2.4: {n} has no entry in Parser.PRECEDENCES")
    cmp_levels = {prec[t[n]] for n in RFC_COMPARISON_TOKENS}
    if len(cmp_levels) == 1:
        rr.ok(where, f"the six RFC comparison operators share precedence {cmp_levels}")
    else:
        rr.bad(None, None, f"RFC comparison operators have different precedences {sorted(cmp_levels)}",
               construct="comparison precedences", file=parser.module.relpath, qualname=parser.qualname)
    checks = [
        ("||", prec[t["TOKEN_OR"]], "&&", prec[t["TOKEN_AND"]]),
        ("&&", prec[t["TOKEN_AND"]], "comparison", min(cmp_levels)),
        ("comparison", max(cmp_levels), "!", prec[t["TOKEN_NOT"]]),
    ]
    for a, pa, b, pb in checks:
        if pa < pb:
            rr.ok(where, f"precedence({a})={pa} < precedence({b})={pb}")
        else:
            rr.bad(None, None, f"`{a}` must bind less tightly than `{b}` (found {pa} >= {pb})",
                   construct=f"precedence {a} vs {b}", file=parser.module.relpath, qualname=parser.qualname + ".PRECEDENCES")
    return rr


# ---- comparison wiring -----------------------------------------------------

Term = Tuple  # nested tuples


def _term(e: ast.expr, left: str, right: str) -> Optional[Term]:
    if isinstance(e, ast.UnaryOp) and isinstance(e.op, ast.Not):
        t = _term(e.operand, left, right)
        return ("not", t) if t else None
    if isinstance(e, ast.BoolOp):
        parts = [_term(v, left, right) for v in e.values]
        if any(p is None for p in parts):
            return None
        return ("or" if isinstance(e.op, ast.Or) else "and", frozenset(parts))
    if isinstance(e, ast.Call) and isinstance(e.func, ast.Attribute) and path_of(e.func.value) == "self" and len(e.args) == 2:
        a, b = path_of(e.args[0]), path_of(e.args[1])
        if a in (left, right) and b in (left, right) and a != b:
            return ("call", e.func.attr, "lr" if a == left else "rl")
    return None


def compare_branches(ctx: Ctx) -> Dict[str, Tuple[ast.AST, ast.expr]]:
    """operator literal -> (anchor node, the value compare() returns for that operator).

    The value is the *residual* of the function body once `operator == <literal>` is known: tests on the
    operator are decided, the remaining if/else trees become conditional / boolean expressions and locals are
    substituted.  How the dispatch is spelled (elif chain, guards, merged or nested conditions, `in (...)`)
    does not matter."""
    from sa.peval import residual_expr

    fn = ctx.repo.require_func("JSONPathEnvironment.compare")
    params = [a.arg for a in fn.node.args.args]
    if len(params) < 4:
        raise AnalysisError("compare(self, left, operator, right) signature changed")
    opname = params[2]
    lits: Dict[str, ast.AST] = {}
    for node in ast.walk(fn.node):
        if isinstance(node, ast.Compare) and len(node.ops) == 1 and path_of(node.left) == opname:
            for c in ast.walk(node.comparators[0]):
                if isinstance(c, ast.Constant) and isinstance(c.value, str):
                    lits.setdefault(c.value, node)
    out: Dict[str, Tuple[ast.AST, ast.expr]] = {}
    for lit, anchor in lits.items():
        def atom(t: ast.expr, lit=lit) -> Optional[bool]:  # type: ignore[no-untyped-def]
            if isinstance(t, ast.Compare) and len(t.ops) == 1 and path_of(t.left) == opname:
                c, o = t.comparators[0], t.ops[0]
                if isinstance(o, (ast.Eq, ast.NotEq)) and isinstance(c, ast.Constant):
                    return (c.value == lit) == isinstance(o, ast.Eq)
                if isinstance(o, (ast.In, ast.NotIn)) and isinstance(c, (ast.Tuple, ast.List, ast.Set)) and all(
                    isinstance(x, ast.Constant) for x in c.elts
                ):
                    return (lit in [x.value for x in c.elts]) == isinstance(o, ast.In)  # type: ignore[attr-defined]
            return None

        e = residual_expr(fn.node, atom)
        if e is None:
            raise AnalysisError(f"compare(): the value for operator `{lit}` is not an expression of the operands")
        out[lit] = (anchor, e)
    return out


def run_compare(ctx: Ctx, rule: str, left: object, op: str, right: object) -> object:
    """`JSONPathEnvironment().compare(left, op, right)` by abstract execution (rules/model.py): True / False, RAISES,
    or UNKNOWN.  However compare() dispatches - an if chain, a table of lambdas, a loop over rows - this is what it
    answers for these operands."""
    from .model import MObj
    from .model import Model

    model = Model(ctx, rule)
    model.whole_bodies = True
    return model.call(MObj(model, "JSONPathEnvironment", {}), "compare", [left, op, right])


def compare_branches_or_none(ctx: Ctx) -> Optional[Dict[str, Tuple[ast.AST, ast.expr]]]:
    """compare_branches, or None when the dispatch is not spelled as tests on the operator (a table of functions, a
    loop over rows ...): the callers then decide by executing compare() on witnesses."""
    try:
        br = compare_branches(ctx)
    except AnalysisError:
        return None
    return br if all(op in br for op in ("==", "!=", "<", ">", "<=", ">=")) else None


def r2_5(ctx: Ctx) -> RuleResult:
    rr = RuleResult("R2.5", "the six comparison operators are wired to the right primitive and operand order", floor=6)
    fn = ctx.repo.require_func("JSONPathEnvironment.compare")
    params = [a.arg for a in fn.node.args.args]
    left, right = params[1], params[3]
    br = compare_branches_or_none(ctx)
    if br is None:
        # the dispatch is data-driven: the wiring of the six operators is what R2.10 establishes by executing
        # compare() on the RFC's comparison table (every ordered pair of 20 covering operands)
        table = r2_10(ctx)
        if table.findings:
            for f in table.findings:
                rr.bad(fn, fn.node, f.message, construct=f.construct)
        else:
            for op in ("==", "!=", "<", ">", "<=", ">="):
                rr.ok(fn.loc(), f"`{op}`: decided by executing compare() on the comparison table (the dispatch is not an if chain)")
        return rr
    t_eq = _term(br["=="][1], left, right)
    t_lt = _term(br["<"][1], left, right)
    if not (t_eq and t_eq[0] == "call") or not (t_lt and t_lt[0] == "call"):
        raise AnalysisError("R2.5: the `==` / `<` branches are not direct calls of a primitive on (left, right)")
    eq_name, lt_name = t_eq[1], t_lt[1]
    if t_lt[2] != "lr":
        rr.bad(fn, br["<"][0], "`<` must apply the ordering primitive to (left, right)", construct=short(br["<"][1]))
    # the ordering primitive applies Python `<` to (first, second) parameter
    lt_fn = ctx.repo.find_method(ctx.repo.require_class("JSONPathEnvironment"), lt_name)
    if lt_fn is None:
        raise AnalysisError(f"R2.5: ordering primitive {lt_name} not found")
    p = own_params(lt_fn)[:2]
    cmps = [n for n in ast.walk(lt_fn.node) if isinstance(n, ast.Compare) and len(n.ops) == 1
            and isinstance(n.ops[0], (ast.Lt, ast.Gt)) and path_of(n.left) in p and path_of(n.comparators[0]) in p]
    if not cmps:
        raise AnalysisError(f"R2.5: no Python ordering comparison in {lt_name}")
    for c in cmps:
        fwd = (isinstance(c.ops[0], ast.Lt) and path_of(c.left) == p[0]) or (isinstance(c.ops[0], ast.Gt) and path_of(c.left) == p[1])
        if fwd:
            rr.ok(lt_fn.loc(c), f"{lt_name}: `{short(c)}` is first < second")
        else:
            rr.bad(lt_fn, c, f"{lt_name}(a, b) must mean a < b", construct=short(c))

    def eq() -> Term:
        return ("call", eq_name)

    def lt(order: str) -> Term:
        return ("call", lt_name, order)

    def norm(t: Optional[Term]) -> Optional[Term]:
        if t is None:
            return None
        if t[0] == "call" and t[1] == eq_name:
            return ("call", eq_name)  # commutative
        if t[0] == "not":
            return ("not", norm(t[1]))
        if t[0] in ("or", "and"):
            return (t[0], frozenset(norm(x) for x in t[1]))
        return t

    expected = {
        "==": eq(),
        "!=": ("not", eq()),
        "<": lt("lr"),
        ">": lt("rl"),
        "<=": ("or", frozenset({lt("lr"), eq()})),
        ">=": ("or", frozenset({lt("rl"), eq()})),
    }
    for op, want in expected.items():
        node, expr = br[op]
        got = norm(_term(expr, left, right))
        if got is None:
            raise AnalysisError(f"R2.5: the `{op}` branch `{short(expr)}` cannot be normalised")
        if got == want:
            rr.ok(fn.loc(node), f"`{op}`: {short(expr)}")
        else:
            rr.bad(fn, node, f"the `{op}` branch computes `{short(expr)}`, which is not the RFC definition",
                   construct=f"{op}: {short(expr)}")
    return rr


RFC_FUNCTIONS = {
    "length": (["VALUE"], "VALUE"),
    "count": (["NODES"], "VALUE"),
    "match": (["VALUE", "VALUE"], "LOGICAL"),
    "search": (["VALUE", "VALUE"], "LOGICAL"),
    "value": (["NODES"], "VALUE"),
}


def registered_functions(ctx: Ctx) -> Dict[str, object]:
    """name -> ClassInfo of the function registered by setup_function_extensions."""
    fn = ctx.repo.require_func("JSONPathEnvironment.setup_function_extensions")
    out: Dict[str, object] = {}
    for n in ast.walk(fn.node):
        if isinstance(n, ast.Assign) and isinstance(n.targets[0], ast.Subscript):
            t = n.targets[0]
            if path_of(t.value) == "self.function_extensions" and isinstance(t.slice, ast.Constant):
                name = t.slice.value
                v = n.value
                if isinstance(v, ast.Call):
                    d = ctx.repo.dotted(v.func)
                    if d:
                        kind, val = ctx.repo.resolve_global(fn.module, d)
                        if kind == "class":
                            out[name] = val
                elif isinstance(v, ast.Subscript) and isinstance(v.slice, ast.Constant) and v.slice.value in out:
                    out[name] = out[v.slice.value]
    return out


def r2_6(ctx: Ctx) -> RuleResult:
    rr = RuleResult("R2.6", "the five standard functions have the RFC signatures; match/search primitives", floor=7)
    reg = registered_functions(ctx)
    for name, (args, ret) in RFC_FUNCTIONS.items():
        cls = reg.get(name)
        if cls is None:
            rr.bad(None, None, f"standard function `{name}` is not registered", construct=f"register {name}",
                   file="jsonpath/env.py", qualname="JSONPathEnvironment.setup_function_extensions")
            continue
        try:
            at = ctx.folder.class_attr(cls, "arg_types")  # type: ignore[arg-type]
            rt = ctx.folder.class_attr(cls, "return_type")  # type: ignore[arg-type]
        except NotConst as err:
            raise AnalysisError(f"R2.6: signature of {name} cannot be folded: {err}") from err
        got_args = [a.name if isinstance(a, EnumMember) else str(a) for a in at]
        got_ret = rt.name if isinstance(rt, EnumMember) else str(rt)
        where = f"{cls.module.relpath}:{cls.node.lineno}"  # type: ignore[attr-defined]
        if got_args == args and got_ret == ret:
            rr.ok(where, f"{name}({', '.join(args)}) -> {ret}")
        else:
            rr.bad(None, None, f"`{name}` is declared ({', '.join(got_args)}) -> {got_ret}; RFC 9535 2.4 "
                   f"requires ({', '.join(args)}) -> {ret}", construct=f"{name} signature",
                   file=cls.module.relpath, qualname=cls.qualname)  # type: ignore[attr-defined]
    for name, prim in (("match", "fullmatch"), ("search", "search")):
        cls = reg.get(name)
        if cls is None:
            continue
        call = cls.methods.get("__call__")  # type: ignore[attr-defined]
        if call is None:
            raise AnalysisError(f"{name}.__call__ not found")
        prims = [c for c in calls(call.node) if callee_name(c) in ("fullmatch", "search", "match", "findall")]
        if prims and all(callee_name(c) == prim for c in prims):
            c0 = prims[0]
            # re.fullmatch(pattern, string): pattern is the second parameter of __call__
            params = [a.arg for a in call.node.args.args][1:]
            order_ok = len(c0.args) >= 2 and len(params) >= 2 and path_of(c0.args[0]) == params[1] and path_of(c0.args[1]) == params[0]
            if order_ok:
                rr.ok(call.loc(c0), f"{name}(): re.{prim}(pattern, string)")
            else:
                rr.bad(call, c0, f"{name}() must apply re.{prim} with the second argument as the pattern",
                       construct=short(c0))
        else:
            rr.bad(call, call.node, f"{name}() must use re.{prim}", construct=f"{name} primitive")
    return rr


def r2_7(ctx: Ctx) -> RuleResult:
    """`$` keeps denoting the query argument on a re-used compiled query: the
    cached value of a root query lives in a per-resolution copy (= R9.3)."""
    from .c09 import r9_3

    rr = r9_3(ctx)
    rr.rule = "R2.7"
    rr.title = "cached root-query values do not outlive one resolution (R9.3)"
    for f in rr.findings:
        f.rule = "R2.7"
    return rr


def r2_8(ctx: Ctx) -> RuleResult:
    """A query argument that selects nothing is the special result Nothing (RFC 9535 2.4.1): for a function with
    declared parameter types, an *empty* node list given to a parameter that is not NodesType must become UNDEFINED -
    not an empty list, not the node list itself.  Partial evaluation of `_unpack_node_lists` under exactly those
    assumptions; every argument value it can produce must be UNDEFINED."""
    from sa.consteval import EnumMember
    from sa.consteval import NotConst
    from sa.peval import Explorer

    rr = RuleResult("R2.8", "an empty node list argument of a value parameter is Nothing", floor=1)
    fn = ctx.repo.require_func("FunctionExtension._unpack_node_lists")
    params = [a.arg for a in fn.node.args.args + fn.node.args.kwonlyargs]
    # the parameter that holds the function is the one whose `.arg_types` is read (whatever its position or name)
    typed = [p_ for p_ in params if any(isinstance(n, ast.Attribute) and n.attr == "arg_types" and path_of(n.value) == p_ for n in ast.walk(fn.node))]
    if len(params) < 3 or len(typed) != 1:
        raise AnalysisError("R2.8: _unpack_node_lists(self, func, args) signature changed")
    funcp = typed[0]
    et = ctx.repo.require_class("ExpressionType")

    def oracle(t: ast.expr, env: dict) -> Optional[bool]:  # type: ignore[type-arg]
        ic = isinstance_classes(t)
        if ic is not None:
            if ic[0] == funcp and "FilterFunction" in ic[1]:
                return True
            if "NodeList" in ic[1]:
                return True
            if ic[0] != funcp and not ic[0].startswith("self"):
                # the argument is a node list - a list: a sequence, sized, iterable; not text
                if set(ic[1]) <= {"Sequence", "list", "Iterable", "Collection", "Sized", "MutableSequence", "Reversible"}:
                    return True
                if set(ic[1]) <= {"str", "bytes", "bytearray", "dict", "Mapping", "int", "float", "bool"}:
                    return False
            return None
        if isinstance(t, ast.Compare) and len(t.ops) == 1:
            l, r, op = t.left, t.comparators[0], t.ops[0]
            if isinstance(l, ast.Call) and callee_name(l) == "len" and isinstance(r, ast.Constant) and isinstance(op, (ast.Eq, ast.NotEq, ast.Gt, ast.GtE, ast.Lt)):
                n = 0  # the node list is empty
                return {ast.Eq: n == r.value, ast.NotEq: n != r.value, ast.Gt: n > r.value, ast.GtE: n >= r.value, ast.Lt: n < r.value}[type(op)]
            if isinstance(op, (ast.Eq, ast.NotEq)):
                for side in (l, r):
                    try:
                        m = ctx.folder.eval_in(side, fn.module, fn.cls)
                    except NotConst:
                        continue
                    if isinstance(m, EnumMember) and m.cls is et:
                        # the declared parameter type is not NODES (say VALUE)
                        return (m.name == "VALUE") == isinstance(op, ast.Eq)
        if isinstance(t, ast.Call) and callee_name(t) == "getattr":
            return False  # a typed function is not the legacy `with_node_lists` kind
        if isinstance(t, ast.UnaryOp) and isinstance(t.op, ast.Not) and path_of(t.operand) and not path_of(t.operand).startswith("self"):
            return None
        return None

    produced: List[ast.expr] = []
    nothing: Set[int] = set()  # produced expressions whose value on this path is UNDEFINED
    NOTHING = "$UNDEFINED"

    def on_call(c: ast.Call, args, env):  # type: ignore[no-untyped-def]
        if callee_name(c) == "append" and len(c.args) == 1:
            produced.append(c.args[0])
            if args and args[0] == NOTHING:
                nothing.add(id(c.args[0]))
        return None

    def value_oracle(e: ast.expr, env: dict):  # type: ignore[no-untyped-def, type-arg]
        # the value of the name UNDEFINED is followed through locals (`unpacked = UNDEFINED ... append(unpacked)`)
        if isinstance(e, ast.Name) and e.id == "UNDEFINED" and "UNDEFINED" not in env:
            return NOTHING
        return None

    ex = Explorer(ctx.folder, fn, oracle, on_call, value_oracle=value_oracle, enter_loops=True)
    outs = ex.run({})
    # values produced by a returned comprehension / list display
    def leaves(e: ast.expr, env: dict) -> List[ast.expr]:  # type: ignore[type-arg]
        if isinstance(e, ast.IfExp):
            d = ex.test(e.test, env)
            out: List[ast.expr] = []
            if d is not False:
                out += leaves(e.body, env)
            if d is not True:
                out += leaves(e.orelse, env)
            return out
        return [e]

    for (kind, node, _v), env in zip(outs, ex.envs):
        if kind == "return" and isinstance(node, ast.Return) and isinstance(node.value, (ast.ListComp, ast.GeneratorExp)):
            produced.extend(leaves(node.value.elt, env))
        elif kind == "return" and isinstance(node, ast.Return) and isinstance(node.value, ast.Name) and node.value.id == params[2]:
            produced.append(node.value)  # the arguments are returned untouched
    if not produced:
        raise AnalysisError("R2.8: _unpack_node_lists produces no argument values on the typed path")
    for e in produced:
        if path_of(e) == "UNDEFINED" or id(e) in nothing:
            rr.ok(fn.loc(e), "empty node list for a value parameter -> UNDEFINED (Nothing)")
        else:
            rr.bad(fn, e, f"for a typed function, an empty node list given to a value parameter is passed as `{short(e)}` "
                   "instead of Nothing: `length(@.missing)` is then 0 (an empty list has length 0) and compares equal to 0",
                   construct=f"empty node list argument -> {short(e)}")
    return rr


def r2_9(ctx: Ctx) -> RuleResult:
    """RFC 9535 2.4.4-2.4.8: the five standard functions on a covering set of arguments.  `length` counts characters,
    elements or members and is Nothing for other values; `count` is the number of nodes; `value` is the value of a
    single node and Nothing otherwise; `match` tests the whole string, `search` any part of it, and both are false for
    a non-string or an invalid pattern.  Their `__call__` bodies are executed abstractly (rules/model.py; regular
    expressions by the standard `re` module on constant arguments)."""
    from sa.consteval import Instance
    from sa.peval import UNKNOWN

    from .model import RAISES
    from .model import MObj
    from .model import Model

    rr = RuleResult("R2.9", "the standard functions compute what RFC 9535 defines on covering arguments", floor=30)
    NOTHING = "<Nothing>"

    def norm(v: object) -> object:
        if isinstance(v, Instance) and v.cls.name in ("_Undefined", "Undefined"):
            return NOTHING
        return v

    mm = Model(ctx, "R2.9")
    n1, n2 = MObj(mm, "JSONPathMatch", {"obj": 7}), MObj(mm, "JSONPathMatch", {"obj": 8})
    cases = [
        ("Length", [("abc",), 3]), ("Length", [("",), 0]), ("Length", [((1, 2),), 2]), ("Length", [((),), 0]),
        ("Length", [({"a": 1, "b": 2},), 2]), ("Length", [(5,), NOTHING]), ("Length", [(True,), NOTHING]), ("Length", [(None,), NOTHING]),
        ("Length", [(1.5,), NOTHING]),
        ("Count", [((),), 0]), ("Count", [((n1,),), 1]), ("Count", [((n1, n2),), 2]),
        ("Value", [((),), NOTHING]), ("Value", [((n1,),), 7]), ("Value", [((n1, n2),), NOTHING]),
        ("Match", [("abc", "a.c"), True]), ("Match", [("abcd", "a.c"), False]), ("Match", [("xabc", "a.c"), False]),
        ("Match", [("ab", "ab|abc"), True]), ("Match", [("abc", "ab|abc"), True]),
        ("Match", [(5, "a"), False]), ("Match", [("a", 5), False]), ("Match", [("a", "("), False]), ("Match", [("", ""), True]),
        ("Search", [("abc", "a.c"), True]), ("Search", [("xabcd", "a.c"), True]), ("Search", [("abc", "b"), True]),
        ("Search", [("abc", "d"), False]), ("Search", [(5, "a"), False]), ("Search", [("a", 5), False]), ("Search", [("a", "("), False]),
        ("Search", [("b", "ab"), False]),
    ]
    bad_seen: Set[str] = set()
    for cname, (args, want) in cases:
        model = Model(ctx, "R2.9")
        model.whole_bodies = True
        try:
            cls = ctx.repo.require_class(cname)
        except AnalysisError:
            raise AnalysisError(f"R2.9: the standard function class {cname} was not found") from None
        fn = ctx.repo.find_method(cls, "__call__")
        if fn is None:
            raise AnalysisError(f"R2.9: {cname}.__call__ not found")
        # node lists are model NodeList objects (their own methods, `empty()` and the like, run abstractly)
        from .model import NodeListModel

        call_args = [NodeListModel(model, list(a)) if cname in ("Count", "Value") and isinstance(a, tuple) else a for a in args]
        got = norm(model.call(MObj(model, cname, {}), "__call__", call_args))
        shown = tuple("<1 node>" if isinstance(a, tuple) and a and isinstance(a[0], MObj) and len(a) == 1 else
                      ("<2 nodes>" if isinstance(a, tuple) and a and isinstance(a[0], MObj) else a) for a in args)
        if got is UNKNOWN:
            raise AnalysisError(f"R2.9: {cname.lower()}{shown} cannot be determined")
        if got is not RAISES and got == want and type(got) is type(want):
            rr.ok(fn.loc(), f"{cname.lower()}{shown} = {want!r}")
        elif cname not in bad_seen:
            bad_seen.add(cname)
            rr.bad(fn, fn.node, f"the standard function `{cname.lower()}` gives {'an exception' if got is RAISES else repr(got)} for {shown}; RFC 9535 defines {want!r}",
                   construct=f"{cname.lower()}{shown} -> {'raise' if got is RAISES else repr(got)} instead of {want!r}")
    return rr


def r2_10(ctx: Ctx) -> RuleResult:
    """RFC 9535 2.3.5.2.2, the comparison table.  `JSONPathEnvironment.compare` - with everything it calls, the
    deep-equality routine of another module included - is executed abstractly for the six comparison operators on
    every ordered pair of a covering set of operands: null, both booleans, integers and floats that are equal /
    ordered, strings, arrays and objects (empty, equal, differing in a nested boolean-vs-number), and Nothing.
    The result must be the RFC's: equality within a kind (numbers by value, never a boolean with a number, containers
    deeply), ordering for two numbers or two strings only, `<=` / `>=` as ordering-or-equality, `!=` as negation."""
    from sa.peval import UNKNOWN

    from .model import RAISES
    from .model import MObj
    from .model import Model

    rr = RuleResult("R2.10", "comparisons give the RFC's truth table on covering operands", floor=800)
    fmod = ctx.repo.modules["jsonpath.filter"]
    try:
        nothing = ctx.folder.global_value(fmod, "UNDEFINED")
    except NotConst as err:
        raise AnalysisError(f"R2.10: UNDEFINED cannot be folded: {err}") from err
    vals: List[object] = [None, True, False, 0, 1, 2, 1.0, 1.5, "a", "b", "", (), (1,), (1, 2), (True,), {}, {"a": 1}, {"a": True}, {"b": 1}, nothing]

    def kind(v: object) -> str:
        if v is nothing:
            return "nothing"
        if v is None:
            return "null"
        if isinstance(v, bool):
            return "boolean"
        if isinstance(v, (int, float)):
            return "number"
        if isinstance(v, str):
            return "string"
        return "array" if isinstance(v, tuple) else "object"

    def eq(a: object, b: object) -> bool:
        ka, kb = kind(a), kind(b)
        if ka != kb:
            return False
        if ka in ("nothing", "null"):
            return True
        if ka == "array":
            return len(a) == len(b) and all(eq(x, y) for x, y in zip(a, b))  # type: ignore[arg-type]
        if ka == "object":
            return set(a) == set(b) and all(eq(a[k], b[k]) for k in a)  # type: ignore[arg-type,index]
        return a == b

    def lt(a: object, b: object) -> bool:
        return kind(a) == kind(b) and kind(a) in ("number", "string") and a < b  # type: ignore[operator]

    ref = {"==": eq, "!=": lambda a, b: not eq(a, b), "<": lt, ">": lambda a, b: lt(b, a),
           "<=": lambda a, b: lt(a, b) or eq(a, b), ">=": lambda a, b: lt(b, a) or eq(a, b)}
    fn = ctx.repo.require_func("JSONPathEnvironment.compare")
    first_bad: Dict[str, Tuple[object, object, object, object]] = {}
    model = Model(ctx, "R2.10")
    model.whole_bodies = True
    env = MObj(model, "JSONPathEnvironment", {})
    n_ok = 0
    for op, f in ref.items():
        for a in vals:
            for b in vals:
                got = model.call(env, "compare", [a, op, b])
                if got is UNKNOWN:
                    raise AnalysisError(f"R2.10: compare({a!r}, {op!r}, {b!r}) cannot be determined")
                want = bool(f(a, b))
                if got is not RAISES and isinstance(got, bool) and got == want:
                    n_ok += 1
                elif op not in first_bad:
                    first_bad[op] = (a, b, got, want)
    for _ in range(n_ok):
        rr.ok(fn.loc(), "compare() agrees with the RFC table")
    for op, (a, b, got, want) in sorted(first_bad.items()):
        sa, sb = ("Nothing" if x is nothing else repr(x) for x in (a, b))
        rr.bad(fn, fn.node, f"`{sa} {op} {sb}` evaluates to {'an exception' if got is RAISES else got} but RFC 9535 2.3.5.2.2 makes it {want} "
               f"({kind(a)} against {kind(b)})", construct=f"compare: {sa} {op} {sb} -> {got!r} instead of {want}")
    return rr


def r2_11(ctx: Ctx) -> RuleResult:
    """A number literal denotes its value: the parser turns an INT token into `int(float(text))`, which is the value
    only when that is integral - so a literal written with a negative exponent (`5e-1`, `25e-1`, `1e-2`) must reach the
    parser as a FLOAT token.  The lexer model (sa/tokens.py) reads the literals; the kind of the number token decides."""
    from .c02 import token_const as _tc  # noqa: PLW0406

    rr = RuleResult("R2.11", "a number literal with a negative exponent is lexed as a float", floor=5)
    t_float, t_int = _tc(ctx, "TOKEN_FLOAT"), _tc(ctx, "TOKEN_INT")
    fn = ctx.lexer.compile_fn
    for lit in ("5e-1", "25e-1", "1e-2", "-5e-1", "15E-1", "5e-10"):
        toks = [(k, v) for _r, k, v in ctx.lexer.tokens_of(f"$[?@ == {lit}]")]
        nums = [(k, v) for k, v in toks if v == lit]
        if len(nums) != 1:
            raise AnalysisError(f"R2.11: the literal {lit} is not read as one token ({toks})")
        if nums[0][0] == t_float:
            rr.ok(fn.loc(), f"{lit}: FLOAT token")
        elif nums[0][0] == t_int:
            rr.bad(fn, fn.node, f"the literal {lit} reaches the parser as an integer token: `int(float('{lit}'))` is {int(float(lit))}, not {float(lit)} "
                   f"(`$[?@ == {lit}]` then compares with {int(float(lit))})", construct=f"{lit} lexed as INT")
        else:
            rr.bad(fn, fn.node, f"the literal {lit} is lexed as {nums[0][0]}, not as a number", construct=f"{lit} lexed as {nums[0][0]}")
    return rr


RULES = [r2_1, r2_2, r2_3, r2_4, r2_5, r2_6, r2_7, r2_8, r2_9, r2_10, r2_11]
