"""C11 - all query entry points agree with one another.

R11.1 environment-level calls are the compiled-query calls (delegation, every
      argument forwarded); package-level names are DEFAULT_ENV's methods
R11.2 findall is the projection of finditer, match its first element, query a
      wrapper of it
R11.3 the four compound implementations realise the same combination plan
R11.4 text and file inputs go through one loader; the loaded value is root and
      start node
"""

from __future__ import annotations

import ast

from sa import twins as _twins
from typing import Dict
from typing import List
from typing import Optional
from typing import Set
from typing import Tuple

from sa.kinds import path_of
from sa.loader import AnalysisError
from sa.loader import FuncInfo
from sa.loader import short
from sa.report import RuleResult
from sa.twins import _strip_docstring

from . import Ctx
from .common import callee_name
from .common import calls
from .common import kw


class _Inline(ast.NodeTransformer):
    def __init__(self, env: Dict[str, ast.expr]) -> None:
        self.env = env

    def visit_Name(self, node: ast.Name) -> ast.AST:
        if isinstance(node.ctx, ast.Load) and node.id in self.env:
            return self.env[node.id]
        return node

    def visit_Await(self, node: ast.Await) -> ast.AST:
        return self.visit(node.value)


def _single_return(fn: FuncInfo) -> Optional[ast.expr]:
    """The returned expression of a function that is `[x = e]* return r`, with the
    single-assignment locals substituted (so `p = self.compile(path); return
    p.findall(...)` reads like the one-line form).  None if the body has another shape."""
    import copy

    body = _strip_docstring(fn.node.body)
    env: Dict[str, ast.expr] = {}
    for s_ in body[:-1]:
        if (
            isinstance(s_, (ast.Assign, ast.AnnAssign))
            and (s_.value is not None)
            and isinstance(s_.targets[0] if isinstance(s_, ast.Assign) else s_.target, ast.Name)
        ):
            name = (s_.targets[0] if isinstance(s_, ast.Assign) else s_.target).id  # type: ignore[union-attr]
            if name in env:
                return None
            env[name] = _Inline(env).visit(copy.deepcopy(s_.value))
        else:
            return None
    if body and isinstance(body[-1], ast.Return) and body[-1].value is not None:
        return _Inline(env).visit(copy.deepcopy(body[-1].value))
    return None


def _shape_error(rule: str, fn: FuncInfo) -> AnalysisError:
    return AnalysisError(f"{rule}: {fn.qualname} is not a sequence of simple assignments followed by one return; "
                         "this delegation shape is not recognised")


def _forwards(call: ast.Call, positional: List[str], keywords: List[str]) -> bool:
    pos = [path_of(a) for a in call.args]
    kws = {k.arg: path_of(k.value) for k in call.keywords}
    return pos == positional and kws == {k: k for k in keywords}


def r11_1(ctx: Ctx) -> RuleResult:
    rr = RuleResult("R11.1", "environment entry points delegate to the compiled query with all arguments", floor=13)
    env = ctx.repo.require_class("JSONPathEnvironment")
    for name in ("findall", "finditer", "match", "findall_async", "finditer_async"):
        fn = env.methods.get(name)
        if fn is None:
            raise AnalysisError(f"JSONPathEnvironment.{name} not found")
        v = _single_return(fn)
        if v is None:
            raise _shape_error("R11.1", fn)
        ok = False
        if isinstance(v, ast.Call) and isinstance(v.func, ast.Attribute) and v.func.attr == name:
            recv = v.func.value
            if (
                isinstance(recv, ast.Call) and isinstance(recv.func, ast.Attribute) and recv.func.attr == "compile"
                and path_of(recv.func.value) == "self" and [path_of(a) for a in recv.args] == ["path"] and not recv.keywords
                and _forwards(v, ["data"], ["filter_context"])
            ):
                ok = True
        if ok:
            rr.ok(fn.loc(), f"{name}: self.compile(path).{name}(data, filter_context=filter_context)")
        else:
            rr.bad(fn, fn.node, f"JSONPathEnvironment.{name} must be `self.compile(path).{name}(data, "
                   "filter_context=filter_context)`", construct=f"{name}: {short(v) if v is not None else 'not a single return'}")
    q = env.methods.get("query")
    if q is None:
        raise AnalysisError("JSONPathEnvironment.query not found")
    v = _single_return(q)
    if v is None:
        raise _shape_error("R11.1", q)
    ok = False
    if isinstance(v, ast.Call) and callee_name(v) == "Query" and len(v.args) == 2 and path_of(v.args[1]) == "self":
        inner = v.args[0]
        if (
            isinstance(inner, ast.Call) and isinstance(inner.func, ast.Attribute) and inner.func.attr == "finditer"
            and path_of(inner.func.value) == "self" and _forwards(inner, ["path", "data"], ["filter_context"])
        ):
            ok = True
    if ok:
        rr.ok(q.loc(), "query: Query(self.finditer(path, data, filter_context=filter_context), self)")
    else:
        rr.bad(q, q.node, "JSONPathEnvironment.query must wrap self.finditer(path, data, filter_context=...)",
               construct=f"query: {short(v) if v is not None else ''}")
    # package-level bindings
    pkg = ctx.repo.modules.get("jsonpath")
    if pkg is None:
        raise AnalysisError("jsonpath/__init__.py not found")
    default = pkg.assigns.get("DEFAULT_ENV")
    if not (isinstance(default, ast.Call) and callee_name(default) == "JSONPathEnvironment" and not default.args and not default.keywords):
        rr.bad(None, None, "DEFAULT_ENV must be a plain JSONPathEnvironment()", construct="DEFAULT_ENV",
               file=pkg.relpath, qualname="jsonpath.DEFAULT_ENV")
    for name in ("compile", "findall", "findall_async", "finditer", "finditer_async", "match", "query"):
        e = pkg.assigns.get(name)
        if e is not None and path_of(e) == f"DEFAULT_ENV.{name}":
            rr.ok(pkg.relpath, f"jsonpath.{name} = DEFAULT_ENV.{name}")
        else:
            rr.bad(None, None, f"jsonpath.{name} must be DEFAULT_ENV.{name}", construct=f"jsonpath.{name}",
                   file=pkg.relpath, qualname=f"jsonpath.{name}")
    return rr


def r11_2(ctx: Ctx) -> RuleResult:
    rr = RuleResult("R11.2", "findall / match / query are projections of finditer", floor=6)
    jp = ctx.repo.require_class("jsonpath.path.JSONPath")
    comp = ctx.repo.require_class("jsonpath.path.CompoundJSONPath")
    for name, it in (("findall", "finditer"), ("findall_async", "finditer_async")):
        fn = jp.methods.get(name)
        if fn is None:
            raise AnalysisError(f"JSONPath.{name} not found")
        v = _single_return(fn)
        if v is None:
            raise _shape_error("R11.2", fn)
        ok = False
        if isinstance(v, ast.ListComp) and len(v.generators) == 1 and not v.generators[0].ifs:
            g = v.generators[0]
            src = g.iter.value if isinstance(g.iter, ast.Await) else g.iter
            if (
                isinstance(v.elt, ast.Attribute) and v.elt.attr == "obj" and path_of(v.elt.value) == path_of(g.target)
                and isinstance(src, ast.Call) and isinstance(src.func, ast.Attribute) and src.func.attr == it
                and path_of(src.func.value) == "self" and _forwards(src, ["data"], ["filter_context"])
            ):
                ok = True
        if ok:
            rr.ok(fn.loc(), f"JSONPath.{name}: [m.obj for m in self.{it}(data, filter_context=filter_context)]")
        else:
            rr.bad(fn, fn.node, f"JSONPath.{name} must be the list of values of self.{it}(...) without a condition",
                   construct=f"{name}: {short(v) if v is not None else ''}")
    for cls in (jp, comp):
        m = cls.methods.get("match")
        if m is None:
            raise AnalysisError(f"{cls.name}.match not found")
        # partial evaluation: the only ways out are "the first element of self.finditer(...)" and, through a
        # StopIteration handler, None
        from sa.peval import Explorer

        FIRST = "<first element of self.finditer(data, filter_context=filter_context)>"

        FIRST_OR_NONE = FIRST + " or None"

        def on_call(c: ast.Call, args, env):  # type: ignore[no-untyped-def]
            if callee_name(c) == "next" and len(c.args) in (1, 2) and not c.keywords:
                if len(c.args) == 2 and not (isinstance(c.args[1], ast.Constant) and c.args[1].value is None):
                    return None
                a = c.args[0]
                if isinstance(a, ast.Call) and callee_name(a) == "iter" and len(a.args) == 1:
                    a = a.args[0]
                if (
                    isinstance(a, ast.Call) and isinstance(a.func, ast.Attribute) and a.func.attr == "finditer"
                    and path_of(a.func.value) == "self" and _forwards(a, ["data"], ["filter_context"])
                ):
                    return FIRST if len(c.args) == 1 else FIRST_OR_NONE
            return None

        # (`with suppress(E): B` is read as `try: B` / `except E: pass` here - the canonical form writes it the other way)
        import copy as _copy

        from sa.loader import FuncInfo as _FI

        class _Unsuppress(ast.NodeTransformer):
            def visit_With(self, node: ast.With) -> ast.AST:
                self.generic_visit(node)
                if len(node.items) == 1 and isinstance(node.items[0].context_expr, ast.Call) and callee_name(node.items[0].context_expr) == "suppress" \
                        and node.items[0].optional_vars is None and node.items[0].context_expr.args:
                    a_ = node.items[0].context_expr.args
                    typ = a_[0] if len(a_) == 1 else ast.Tuple(elts=list(a_), ctx=ast.Load())
                    return ast.copy_location(ast.Try(body=node.body, handlers=[ast.ExceptHandler(type=typ, name=None, body=[ast.Pass()])], orelse=[], finalbody=[]), node)
                return node

        m_node = ast.fix_missing_locations(_Unsuppress().visit(_copy.deepcopy(m.node)))
        m_view = _FI(qualname=m.qualname, name=m.name, node=m_node, module=m.module, cls=m.cls)
        ex = Explorer(ctx.folder, m_view, None, on_call)
        outs = ex.run({})
        ok = bool(outs)
        extra = None
        saw_first = False
        for (kind, node, value), env in zip(outs, ex.envs):
            hs = env.get("$handlers") or ()
            if not hs:
                if kind == "return" and value in (FIRST, FIRST_OR_NONE):
                    saw_first = True
                else:
                    ok = False
                    extra = extra or node
            else:
                types = [ty_ for h in hs for ty_ in ctx.escapes._handler_types(m, h)]
                if not (kind == "return" and value is None and types == ["StopIteration"]):
                    ok = False
                    extra = extra or node
        ok = ok and saw_first
        if not ok and saw_first and isinstance(extra, ast.Return):
            rr.bad(m, extra, f"{cls.name}.match returns `{short(extra)}` on a path that does not take the first "
                   "element of self.finditer(...): match() can then disagree with finditer/findall",
                   construct=f"{cls.name}.match: extra return {short(extra)}")
            continue
        if ok:
            rr.ok(m.loc(), f"{cls.name}.match: first element of self.finditer(...) or None")
        else:
            rr.bad(m, m.node, f"{cls.name}.match must be next(iter(self.finditer(data, filter_context=...))) or None",
                   construct=f"{cls.name}.match shape")
        q = ctx.repo.find_method(cls, "query")  # (maybe inherited from a shared base of the two path classes)
        if q is None:
            raise AnalysisError(f"{cls.name}.query not found")
        v = _single_return(q)
        if v is None:
            raise _shape_error("R11.2", q)
        ok = False
        if isinstance(v, ast.Call) and callee_name(v) == "Query" and len(v.args) == 2 and path_of(v.args[1]) == "self.env":
            a = v.args[0]
            if (
                isinstance(a, ast.Call) and isinstance(a.func, ast.Attribute) and a.func.attr == "finditer"
                and path_of(a.func.value) == "self" and _forwards(a, ["data"], ["filter_context"])
            ):
                ok = True
        if ok:
            rr.ok(q.loc(), f"{cls.name}.query: Query(self.finditer(...), self.env)")
        else:
            rr.bad(q, q.node, f"{cls.name}.query must wrap self.finditer(data, filter_context=...)",
                   construct=f"{cls.name}.query shape")
    return rr


def _loaded_names(fn: FuncInfo, dparam: str) -> Set[str]:
    """Locals assigned a value computed by load_data(<document parameter>) - in any spelling."""
    out: Set[str] = set()
    for a in ast.walk(fn.node):
        if isinstance(a, (ast.Assign, ast.AnnAssign)) and a.value is not None:
            if any(isinstance(c, ast.Call) and callee_name(c) == "load_data" and c.args and path_of(c.args[0]) == dparam
                   for c in ast.walk(a.value)):
                tgt = a.targets[0] if isinstance(a, ast.Assign) else a.target
                p = path_of(tgt)
                if p:
                    out.add(p)
    return out


class _Sym:
    """Symbolic evaluation of a compound find* implementation in a small sequence algebra.

    Terms (strings): `R(self.path)`, `R(PATH)` - the result of one operand evaluated with
    (data, filter_context=filter_context); `concat(a, b)`; `objs(a)` - the values of the matches of a;
    `keep(a, KEY, c)` - the elements of a whose KEY (`self` or `obj`) is in c; `if(U, a, b)` - a when the
    operator is the union token, else b; `ACC:x` - the value of x at the start of an iteration.
    """

    FINDERS = ("findall", "finditer", "findall_async", "finditer_async")

    def __init__(self, ctx: Ctx, fn: FuncInfo) -> None:
        self.ctx = ctx
        self.fn = fn
        self.problems: List[str] = []
        self.init: Dict[str, str] = {}
        self.step: Dict[str, str] = {}
        self.result: Optional[str] = None
        self.loops = 0
        dparam = fn.node.args.args[1].arg if len(fn.node.args.args) > 1 else "data"
        # the document: the parameter itself or a local holding load_data() of it (R11.7 decides which)
        self.docs = {dparam} | _loaded_names(fn, dparam)

    # ------------------------------------------------------------ expressions
    def expr(self, e: ast.expr, env: Dict[str, str]) -> str:
        if isinstance(e, ast.Await):
            return self.expr(e.value, env)
        if isinstance(e, ast.Name):
            return env.get(e.id, f"?{e.id}")
        p = path_of(e)
        if p == "self.path":
            return "self.path"
        if isinstance(e, ast.Call):
            name = callee_name(e)
            if isinstance(e.func, ast.Attribute) and name in self.FINDERS:
                recv = self.expr(e.func.value, env)
                if name != self.fn.name:
                    return f"?{recv}.{name}(...)"
                pos = [path_of(a) for a in e.args]
                kws = {k.arg: path_of(k.value) for k in e.keywords}
                if not (len(pos) == 1 and pos[0] in self.docs and kws == {"filter_context": "filter_context"}):
                    return f"?{recv}.{name}({short(e, 60)}: arguments not forwarded)"
                return f"R({recv})"
            if (name == "chain" or name in _twins.ACHAIN_NAMES) and e.args and not e.keywords:
                terms = [self.expr(a, env) for a in e.args]
                out = terms[0]
                for t in terms[1:]:
                    out = f"concat({out}, {t})"
                return out
            if (name in ("list", "iter", "tuple") or name in _twins.ALIST_NAMES) and len(e.args) == 1 and not e.keywords:
                return self.expr(e.args[0], env)
            helper = self._helper(e)
            if helper is not None:
                # arguments by parameter (positional, keyword, keyword-only - in whatever order the helper declares them)
                hp = [a.arg for a in helper.node.args.args + helper.node.args.kwonlyargs]
                if helper.cls is not None and hp and hp[0] in ("self", "cls"):
                    hp = hp[1:]
                bound: Dict[str, str] = {}
                for p_, a in zip(hp, e.args):
                    bound[p_] = self.expr(a, env)
                for k in e.keywords:
                    if k.arg in hp and k.arg not in bound:
                        bound[k.arg] = self.expr(k.value, env)
                if len(bound) == len(hp) and not any(isinstance(a, ast.Starred) for a in e.args):
                    chained = self.concatenation(helper, bound)
                    if chained is not None:
                        return chained
                    return self.generator(helper, [bound[p_] for p_ in hp])
                return self.generator(helper, [self.expr(a, env) for a in e.args])
            return f"?{short(e, 50)}"
        if isinstance(e, (ast.ListComp, ast.GeneratorExp)) and len(e.generators) == 1:
            g = e.generators[0]
            src = self.expr(g.iter, env)
            elem = path_of(g.target)
            return self.filtered(src, elem, e.elt, g.ifs, env)
        return f"?{short(e, 50)}"

    def filtered(self, src: str, elem: Optional[str], elt: ast.expr, conds: List[ast.expr], env: Dict[str, str]) -> str:
        ep = path_of(elt)
        if elem is None or ep not in (elem, f"{elem}.obj"):
            return f"?map({src}, {short(elt, 30)})"
        term = src
        for c in conds:
            if isinstance(c, ast.Compare) and len(c.ops) == 1 and isinstance(c.ops[0], ast.In) and path_of(c.left) in (elem, f"{elem}.obj"):
                key = "self" if path_of(c.left) == elem else "obj"
                term = f"keep({term}, {key}, {self.expr(c.comparators[0], env)})"
            else:
                term = f"?filter({term}, {short(c, 40)})"
        if ep == f"{elem}.obj":
            term = f"objs({term})"
        return term

    def _helper(self, e: ast.Call) -> Optional[FuncInfo]:
        site = self.ctx.callgraph.by_node.get(id(e))
        if site is not None and len(site.callees) == 1 and site.callees[0].qualname.startswith("jsonpath."):
            return site.callees[0]
        return None

    def concatenation(self, helper: FuncInfo, bound: Dict[str, str]) -> Optional[str]:
        """A helper whose body is one loop per parameter, each yielding every element (`async for x in head: yield x` ;
        `async for x in tail: yield x`): the concatenation of its arguments in that order."""
        body = _strip_docstring(helper.node.body)
        order: List[str] = []
        for st in body:
            if not (isinstance(st, (ast.For, ast.AsyncFor)) and not st.orelse and isinstance(st.target, ast.Name) and len(st.body) == 1
                    and isinstance(st.body[0], ast.Expr) and isinstance(st.body[0].value, ast.Yield) and path_of(st.body[0].value.value) == st.target.id
                    and path_of(st.iter) in bound):
                return None
            order.append(path_of(st.iter) or "")
        if len(order) < 2 or sorted(order) != sorted(bound):  # noqa: PLR2004
            return None
        out = bound[order[0]]
        for p_ in order[1:]:
            out = f"concat({out}, {bound[p_]})"
        return out

    def generator(self, helper: FuncInfo, args: List[str]) -> str:
        """`for x in P: [if x.K not in C: continue] yield x`  ->  keep(P, K, C)."""
        params = [a.arg for a in helper.node.args.args + helper.node.args.kwonlyargs]
        if helper.cls is not None and params and params[0] in ("self", "cls"):
            params = params[1:]
        if len(params) != len(args):
            return f"?{helper.name}(...)"
        env = dict(zip(params, args))
        body = _strip_docstring(helper.node.body)
        if len(body) != 1 or not isinstance(body[0], (ast.For, ast.AsyncFor)):
            return f"?{helper.name}(...)"
        loop = body[0]
        elem = path_of(loop.target)
        src = self.expr(loop.iter, env)
        conds: List[ast.expr] = []
        stmts = list(loop.body)
        from sa.canon import negate

        while stmts and isinstance(stmts[0], ast.If) and not stmts[0].orelse and len(stmts[0].body) == 1 and isinstance(stmts[0].body[0], ast.Continue):
            conds.append(negate(stmts[0].test))
            stmts = stmts[1:]
        if len(stmts) == 1 and isinstance(stmts[0], ast.If) and not stmts[0].orelse:
            conds.append(stmts[0].test)
            stmts = stmts[0].body
        if len(stmts) != 1 or not (isinstance(stmts[0], ast.Expr) and isinstance(stmts[0].value, ast.Yield) and stmts[0].value.value is not None):
            return f"?{helper.name}(...)"
        return self.filtered(src, elem, stmts[0].value.value, conds, env)

    # ------------------------------------------------------------- statements
    def cond(self, t: ast.expr, env: Dict[str, str]) -> str:
        if isinstance(t, ast.Compare) and len(t.ops) == 1 and isinstance(t.ops[0], ast.Eq):
            l, r = self.expr(t.left, env) if isinstance(t.left, ast.Name) else path_of(t.left), path_of(t.comparators[0])
            l2 = path_of(t.left) if not isinstance(t.left, ast.Name) else None
            if (l == "OP" and r == "self.env.union_token") or (l2 == "self.env.union_token" and self.expr(t.comparators[0], env) == "OP"):
                return "U"
            if (l == "OP" and r == "self.env.intersection_token"):
                return "I"
        return f"?{short(t, 50)}"

    def block(self, body: List[ast.stmt], env: Dict[str, str]) -> Optional[Dict[str, str]]:
        for idx, s in enumerate(body):
            # guard form inside the loop over the operands: `if c: A ; continue` ; REST  ==  `if c: A else: REST`
            if isinstance(s, ast.If) and not s.orelse and s.body and isinstance(s.body[-1], ast.Continue):
                s = ast.copy_location(ast.If(test=s.test, body=s.body[:-1] or [ast.Pass()], orelse=list(body[idx + 1:]) or [ast.Pass()]), s)
                return self.block([s], env)
            if isinstance(s, ast.Pass):
                continue
            if isinstance(s, ast.Expr) and isinstance(s.value, ast.Constant):
                continue
            if isinstance(s, ast.Assert):
                continue
            if isinstance(s, (ast.Assign, ast.AnnAssign)) and (isinstance(s, ast.Assign) and len(s.targets) == 1 or isinstance(s, ast.AnnAssign)):
                tgt = s.targets[0] if isinstance(s, ast.Assign) else s.target
                if isinstance(tgt, ast.Name) and s.value is not None:
                    if tgt.id in self.docs:
                        continue  # the single loader of R11.7 is not part of the plan
                    env[tgt.id] = self.expr(s.value, env)
                    continue
            if isinstance(s, ast.Expr) and isinstance(s.value, ast.Call) and callee_name(s.value) == "extend" and isinstance(
                s.value.func, ast.Attribute) and isinstance(s.value.func.value, ast.Name) and len(s.value.args) == 1:
                n = s.value.func.value.id
                env[n] = f"concat({env.get(n, '?' + n)}, {self.expr(s.value.args[0], env)})"
                continue
            if isinstance(s, ast.If):
                # the single loader of R11.7 is not part of the plan
                if not s.orelse and all(isinstance(x, ast.Assign) and isinstance(x.value, ast.Call) and callee_name(x.value) == "load_data" for x in s.body):
                    continue
                c = self.cond(s.test, env)
                a = self.block(s.body, dict(env))
                b = self.block(s.orelse, dict(env))
                if a is None or b is None:
                    self.problems.append("a branch of the plan returns or is not understood")
                    return None
                for k in sorted(set(a) | set(b)):
                    va, vb = a.get(k, f"?unbound {k}"), b.get(k, f"?unbound {k}")
                    if c == "I":
                        env[k] = va if va == vb else f"if(U, {vb}, {va})"
                    else:
                        env[k] = va if va == vb else f"if({c}, {va}, {vb})"
                continue
            if isinstance(s, (ast.For, ast.AsyncFor)):
                self.loops += 1
                if path_of(s.iter) != "self.paths" or not (isinstance(s.target, ast.Tuple) and len(s.target.elts) == 2
                                                           and all(isinstance(x, ast.Name) for x in s.target.elts)):
                    self.problems.append("does not iterate `for op, path in self.paths`")
                    return None
                assigned = {n.id for x in s.body for n in ast.walk(x) if isinstance(n, ast.Name) and isinstance(n.ctx, ast.Store)}
                assigned |= {x.value.func.value.id for x in ast.walk(s) if isinstance(x, ast.Expr) and isinstance(x.value, ast.Call)
                             and isinstance(x.value.func, ast.Attribute) and isinstance(x.value.func.value, ast.Name)
                             and x.value.func.attr in ("extend", "append")}
                env2 = dict(env)
                carried = sorted(k for k in assigned if k in env)
                for k in carried:
                    env2[k] = f"ACC:{k}"
                env2[s.target.elts[0].id] = "OP"  # type: ignore[attr-defined]
                env2[s.target.elts[1].id] = "PATH"  # type: ignore[attr-defined]
                out = self.block(s.body, env2)
                if out is None:
                    return None
                for k in carried:
                    self.init[k] = env[k]
                    self.step[k] = out[k]
                    env[k] = f"fold:{k}"
                continue
            if isinstance(s, ast.Return) and s.value is not None:
                self.result = self.expr(s.value, env)
                return None
            self.problems.append(f"statement not understood: `{short(s, 60)}`")
            return None
        return env


def _plan(ctx: Ctx, fn: FuncInfo) -> Tuple[Dict[str, str], List[str]]:
    """Abstract a compound find* implementation into its combination plan."""
    sym = _Sym(ctx, fn)
    sym.block(_strip_docstring(fn.node.body), {})
    plan: Dict[str, str] = {}
    problems = list(sym.problems)
    res = sym.result or ""
    if not res.startswith("fold:") or sym.loops != 1:
        problems.append(f"does not return the accumulator of one loop over self.paths (returns {res or 'nothing'})")
        return plan, problems
    acc = res[len("fold:"):]
    plan["init"] = "self.path" if sym.init.get(acc) == "R(self.path)" else sym.init.get(acc, "?")
    plan["order"] = "self.paths in order"
    step = sym.step.get(acc, "?")
    A = f"ACC:{acc}"
    unions = {f"concat({A}, R(PATH))": "acc then right"}
    inters = {
        f"keep({A}, self, R(PATH))": "elements of acc whose value is in right values",
        f"keep({A}, obj, objs(R(PATH)))": "elements of acc whose value is in right values",
    }
    plan["union"], plan["intersection"] = "?", "?"
    for u, ud in unions.items():
        for i, idesc in inters.items():
            if step == f"if(U, {u}, {i})":
                plan["union"], plan["intersection"] = ud, idesc
    if plan["union"] == "?":
        plan["union"] = plan["intersection"] = f"step is {step}"
    return plan, problems


def r11_3(ctx: Ctx) -> RuleResult:
    rr = RuleResult("R11.3", "the four compound implementations realise the same plan", floor=4)
    comp = ctx.repo.require_class("jsonpath.path.CompoundJSONPath")
    want = {
        "init": "self.path",
        "order": "self.paths in order",
        "union": "acc then right",
        "intersection": "elements of acc whose value is in right values",
    }
    for name in ("findall", "finditer", "findall_async", "finditer_async"):
        fn = comp.methods.get(name)
        if fn is None:
            raise AnalysisError(f"CompoundJSONPath.{name} not found")
        plan, problems = _plan(ctx, fn)
        diffs = [f"{k}: {plan.get(k)!r} (expected {v!r})" for k, v in want.items() if plan.get(k) != v]
        if not problems and not diffs:
            rr.ok(fn.loc(), f"{name}: left result, then for each (op, path): union = left followed by right; "
                  "intersection = left elements whose value is among the right values")
        else:
            rr.bad(fn, fn.node, f"CompoundJSONPath.{name} deviates from the combination plan of its siblings: "
                   + "; ".join(problems + diffs), construct=f"{name}: " + "; ".join(problems + diffs))
    return rr


def r11_4(ctx: Ctx) -> RuleResult:
    rr = RuleResult("R11.4", "one loader; the loaded value is both root and start node", floor=2)
    jp = ctx.repo.require_class("jsonpath.path.JSONPath")
    for name in ("finditer", "finditer_async"):
        fn = jp.methods.get(name)
        if fn is None:
            raise AnalysisError(f"JSONPath.{name} not found")
        body = _strip_docstring(fn.node.body)
        first = body[0] if body else None
        loaded = None
        if (
            isinstance(first, ast.Assign) and isinstance(first.value, ast.Call) and callee_name(first.value) == "load_data"
            and [path_of(a) for a in first.value.args] == ["data"]
        ):
            loaded = path_of(first.targets[0])
        if loaded is None:
            rr.bad(fn, fn.node, "the document must be loaded with load_data(data) first", construct=f"{name}: load_data first")
            continue
        ok = True
        n = 0
        for c in calls(fn.node):
            if callee_name(c) in ("JSONPathMatch", "match_class"):
                n += 1
                root = kw(c, "root")
                obj = kw(c, "obj")
                if path_of(root) != loaded if root is not None else True:
                    ok = False
                uses = {x.id for x in ast.walk(obj) if isinstance(x, ast.Name)} if obj is not None else set()
                if loaded not in uses or "data" in uses:
                    ok = False
        if ok and n:
            rr.ok(fn.loc(), f"{name}: {loaded} = load_data(data) is root and start node")
        else:
            rr.bad(fn, fn.node, "the root match must use the loaded document as root and as its value",
                   construct=f"{name}: root match")
    return rr


def r11_5(ctx: Ctx) -> RuleResult:
    """Every operand of a compound query records its own root kind (= R13.6)."""
    from .c13 import r13_6

    rr = r13_6(ctx)
    rr.rule = "R11.5"
    for f in rr.findings:
        f.rule = "R11.5"
    return rr


def r11_6(ctx: Ctx) -> RuleResult:
    """Lazily evaluated code created in a loop must not capture a variable that
    a later iteration rebinds (Python closures and generator expressions bind
    late): with two or more `&` operands every intersection would be filtered
    by the *last* operand's values."""
    rr = RuleResult("R11.6", "lazy compound pipelines do not capture loop-rebound variables", floor=2)
    comp = ctx.repo.require_class("jsonpath.path.CompoundJSONPath")
    n = 0
    for name, fn in sorted(comp.methods.items()):
        for loop in [x for x in ast.walk(fn.node) if isinstance(x, (ast.For, ast.AsyncFor))]:
            rebound = set()
            for x in ast.walk(loop):
                if isinstance(x, ast.Name) and isinstance(x.ctx, ast.Store):
                    rebound.add(x.id)
            for g in [x for x in ast.walk(loop) if isinstance(x, (ast.GeneratorExp, ast.Lambda))]:
                n += 1
                if isinstance(g, ast.GeneratorExp):
                    own = {y.id for gen in g.generators for y in ast.walk(gen.target) if isinstance(y, ast.Name)}
                    lazy_parts = [g.elt] + [c for gen in g.generators for c in gen.ifs] + [gen.iter for gen in g.generators[1:]]
                else:
                    own = {a.arg for a in g.args.args}
                    lazy_parts = [g.body]
                captured = {
                    y.id for part in lazy_parts for y in ast.walk(part)
                    if isinstance(y, ast.Name) and isinstance(y.ctx, ast.Load) and y.id in rebound and y.id not in own
                }
                if captured:
                    rr.bad(fn, g, f"the lazily evaluated `{short(g, 80)}` refers to {sorted(captured)}, which the "
                           "enclosing loop rebinds on its next iteration: when the pipeline is finally consumed, "
                           "every intersection is filtered by the last operand's values "
                           "(`$.a.* & $.b.* & $.c.*` differs between finditer and findall)",
                           construct=f"{name}: lazy capture of {sorted(captured)}")
                else:
                    rr.ok(fn.loc(g), f"{fn.qualname}: `{short(g, 60)}` captures no loop-rebound variable")
    # helper generator functions bind their arguments at call time: count them as instances too
    for name, fn in sorted(comp.methods.items()):
        for c in calls(fn.node):
            callee = ctx.callgraph.by_node.get(id(c))
            if callee is not None and callee.callees and any(_is_generator(x) for x in callee.callees) and callee.callees[0].module.name.startswith("jsonpath"):
                n += 1
                rr.ok(fn.loc(c), f"{fn.qualname}: `{short(c, 60)}` binds its arguments when called")
    if n < 2:
        raise AnalysisError("R11.6: no lazy pipeline stage found in the compound iterators")
    return rr


def _is_generator(fn: FuncInfo) -> bool:
    from sa.callgraph import _own_nodes

    return any(isinstance(x, (ast.Yield, ast.YieldFrom)) for x in _own_nodes(fn.node))


def r11_7(ctx: Ctx) -> RuleResult:
    """A document given as text or as a readable file is read once: operands of a
    compound query must not each load it again (a file object is empty the second time)."""
    rr = RuleResult("R11.7", "a compound query loads its document once", floor=4)
    comp = ctx.repo.require_class("jsonpath.path.CompoundJSONPath")
    for name in ("findall", "finditer", "findall_async", "finditer_async"):
        fn = comp.methods.get(name)
        if fn is None:
            raise AnalysisError(f"CompoundJSONPath.{name} not found")
        dparam = fn.node.args.args[1].arg
        # names holding the loaded document
        loaded = _loaded_names(fn, dparam)
        operand_calls = [
            c for c in calls(fn.node)
            if callee_name(c) in ("findall", "finditer", "findall_async", "finditer_async") and c.args
        ]
        raw = [c for c in operand_calls if path_of(c.args[0]) == dparam and dparam not in loaded]
        if len(raw) > 1 or (raw and any(isinstance(x, (ast.For, ast.AsyncFor)) for x in ast.walk(fn.node))):
            rr.bad(fn, raw[0], f"every operand of the compound query is given the caller's `{dparam}` and loads it "
                   "again: a readable file yields its text only once, so the second operand fails to decode it",
                   construct=f"{name}: operands reload {dparam}")
        else:
            rr.ok(fn.loc(), f"{name}: operands are evaluated on the document loaded once ({sorted(x for x in loaded if x)})")
    return rr


def r11_8(ctx: Ctx) -> RuleResult:
    """A document supplied as JSON text gives what the parsed value gives, whatever was evaluated or patched before:
    nothing on the way from an entry point to the decoded document is remembered between calls (= R9.6)."""
    from .c09 import r9_6

    return r9_6(ctx, "R11.8")


def file_model_class():  # type: ignore[no-untyped-def]
    """A model of an open text file (sys.stdin, io.StringIO): `read()` gives the text, it is an IOBase, nothing else is known of it."""
    from sa.peval import UNKNOWN

    from .model import MObj
    from .model import Model

    class _File(MObj):
        def __init__(self, model: Model, text: str) -> None:
            super().__init__(model, "$file", {})
            self.text = text

        def peval_isinstance(self, class_names: List[str]) -> Optional[bool]:
            return "IOBase" in class_names or "TextIOBase" in class_names

        def peval_getattr(self, name: str) -> object:
            return UNKNOWN

        def peval_call(self, method: str, args: List[object], kwargs: Dict[str, object]) -> object:
            return self.text if method == "read" and not args else UNKNOWN

    return _File


def r11_9(ctx: Ctx) -> RuleResult:
    """An array or object document given as JSON text, or as a readable file, is the parsed value: `load_data` is
    executed abstractly on texts in the spellings JSON allows (blank space before and after the value, nesting,
    either kind of container) and on a model file that yields the same texts; the result must be what the JSON
    grammar says the text denotes.  A parsed value is handed back as it is."""
    import json as _json

    from sa.peval import UNKNOWN

    from .model import RAISES
    from .model import MObj
    from .model import Model

    rr = RuleResult("R11.9", "JSON text and files are decoded to the value they denote", floor=20)
    fn = ctx.repo.require_func("jsonpath._data.load_data")
    texts = ['[1, 2]', '{"a": 1}', ' [1]', '\n{"a": [1, {"b": null}]}', '{"a":1} ', '\t[ ]\r\n', '[]', '{}', '  {  }  ', '[[1],[2]]',
             '[true, false, null, 1.5, "x"]', '{"\u00e9": "\u00e9"}']

    _File = file_model_class()

    for text in texts:
        want = _json.loads(text)
        for how in ("text", "file"):
            model = Model(ctx, "R11.9")
            model.whole_bodies = True
            got = model.call_function(fn, [text if how == "text" else _File(model, text)])
            if got is UNKNOWN:
                raise AnalysisError(f"R11.9: what load_data returns for the {how} {text!r} cannot be determined")
            if got is RAISES:
                rr.bad(fn, fn.node, f"load_data refuses the JSON {how} {text!r}", construct=f"load_data({how} {text!r}) raises")
            elif got == want and type(got) is type(want):
                rr.ok(fn.loc(), f"{how} {text!r} -> {want!r}")
            else:
                rr.bad(fn, fn.node, f"the document given as the JSON {how} {text!r} is evaluated as {got!r}, not as the value {want!r} it denotes",
                       construct=f"load_data({how} {text!r}) -> {got!r}")
    for value in ([1, 2], {"a": 1}, (), {}):
        model = Model(ctx, "R11.9")
        model.whole_bodies = True
        got = model.call_function(fn, [value])
        if got is value or (got == value and type(got) is type(value)):
            rr.ok(fn.loc(), f"parsed value {value!r} is handed back")
        elif got is UNKNOWN:
            raise AnalysisError(f"R11.9: what load_data returns for the value {value!r} cannot be determined")
        else:
            rr.bad(fn, fn.node, f"load_data turns the parsed value {value!r} into {'an exception' if got is RAISES else repr(got)}", construct=f"load_data({value!r})")
    return rr


RULES = [r11_1, r11_2, r11_3, r11_4, r11_5, r11_6, r11_7, r11_8, r11_9]
