"""C11 - all query entry points agree with one another.

R11.1 environment-level calls are the compiled-query calls (delegation, every
      argument forwarded); package-level names are DEFAULT_ENV's methods
R11.2 findall is the projection of finditer, match its first element, query a
      wrapper of it
R11.3 the four compound implementations realise the same combination plan
R11.4 text and file inputs go through one loader; the loaded value is root and
      start node
"""

from __future__ import annotations

import ast
from typing import Dict
from typing import List
from typing import Optional
from typing import Tuple

from sa.kinds import path_of
from sa.loader import AnalysisError
from sa.loader import FuncInfo
from sa.loader import short
from sa.report import RuleResult
from sa.twins import _strip_docstring

from . import Ctx
from .common import callee_name
from .common import calls
from .common import kw


class _Inline(ast.NodeTransformer):
    def __init__(self, env: Dict[str, ast.expr]) -> None:
        self.env = env

    def visit_Name(self, node: ast.Name) -> ast.AST:
        if isinstance(node.ctx, ast.Load) and node.id in self.env:
            return self.env[node.id]
        return node

    def visit_Await(self, node: ast.Await) -> ast.AST:
        return self.visit(node.value)


def _single_return(fn: FuncInfo) -> Optional[ast.expr]:
    """The returned expression of a function that is `[x = e]* return r`, with the
    single-assignment locals substituted (so `p = self.compile(path); return
    p.findall(...)` reads like the one-line form).  None if the body has another shape."""
    import copy

    body = _strip_docstring(fn.node.body)
    env: Dict[str, ast.expr] = {}
    for s_ in body[:-1]:
        if (
            isinstance(s_, (ast.Assign, ast.AnnAssign))
            and (s_.value is not None)
            and isinstance(s_.targets[0] if isinstance(s_, ast.Assign) else s_.target, ast.Name)
        ):
            name = (s_.targets[0] if isinstance(s_, ast.Assign) else s_.target).id  # type: ignore[union-attr]
            if name in env:
                return None
            env[name] = _Inline(env).visit(copy.deepcopy(s_.value))
        else:
            return None
    if body and isinstance(body[-1], ast.Return) and body[-1].value is not None:
        return _Inline(env).visit(copy.deepcopy(body[-1].value))
    return None


def _shape_error(rule: str, fn: FuncInfo) -> AnalysisError:
    return AnalysisError(f"{rule}: {fn.qualname} is not a sequence of simple assignments followed by one return; "
                         "this delegation shape is not recognised")


def _forwards(call: ast.Call, positional: List[str], keywords: List[str]) -> bool:
    pos = [path_of(a) for a in call.args]
    kws = {k.arg: path_of(k.value) for k in call.keywords}
    return pos == positional and kws == {k: k for k in keywords}


def r11_1(ctx: Ctx) -> RuleResult:
    rr = RuleResult("R11.1", "environment entry points delegate to the compiled query with all arguments", floor=13)
    env = ctx.repo.require_class("JSONPathEnvironment")
    for name in ("findall", "finditer", "match", "findall_async", "finditer_async"):
        fn = env.methods.get(name)
        if fn is None:
            raise AnalysisError(f"JSONPathEnvironment.{name} not found")
        v = _single_return(fn)
        if v is None:
            raise _shape_error("R11.1", fn)
        ok = False
        if isinstance(v, ast.Call) and isinstance(v.func, ast.Attribute) and v.func.attr == name:
            recv = v.func.value
            if (
                isinstance(recv, ast.Call) and isinstance(recv.func, ast.Attribute) and recv.func.attr == "compile"
                and path_of(recv.func.value) == "self" and [path_of(a) for a in recv.args] == ["path"] and not recv.keywords
                and _forwards(v, ["data"], ["filter_context"])
            ):
                ok = True
        if ok:
            rr.ok(fn.loc(), f"{name}: self.compile(path).{name}(data, filter_context=filter_context)")
        else:
            rr.bad(fn, fn.node, f"JSONPathEnvironment.{name} must be `self.compile(path).{name}(data, "
                   "filter_context=filter_context)`", construct=f"{name}: {short(v) if v is not None else 'not a single return'}")
    q = env.methods.get("query")
    if q is None:
        raise AnalysisError("JSONPathEnvironment.query not found")
    v = _single_return(q)
    if v is None:
        raise _shape_error("R11.1", q)
    ok = False
    if isinstance(v, ast.Call) and callee_name(v) == "Query" and len(v.args) == 2 and path_of(v.args[1]) == "self":
        inner = v.args[0]
        if (
            isinstance(inner, ast.Call) and isinstance(inner.func, ast.Attribute) and inner.func.attr == "finditer"
            and path_of(inner.func.value) == "self" and _forwards(inner, ["path", "data"], ["filter_context"])
        ):
            ok = True
    if ok:
        rr.ok(q.loc(), "query: Query(self.finditer(path, data, filter_context=filter_context), self)")
    else:
        rr.bad(q, q.node, "JSONPathEnvironment.query must wrap self.finditer(path, data, filter_context=...)",
               construct=f"query: {short(v) if v is not None else ''}")
    # package-level bindings
    pkg = ctx.repo.modules.get("jsonpath")
    if pkg is None:
        raise AnalysisError("jsonpath/__init__.py not found")
    default = pkg.assigns.get("DEFAULT_ENV")
    if not (isinstance(default, ast.Call) and callee_name(default) == "JSONPathEnvironment" and not default.args and not default.keywords):
        rr.bad(None, None, "DEFAULT_ENV must be a plain JSONPathEnvironment()", construct="DEFAULT_ENV",
               file=pkg.relpath, qualname="jsonpath.DEFAULT_ENV")
    for name in ("compile", "findall", "findall_async", "finditer", "finditer_async", "match", "query"):
        e = pkg.assigns.get(name)
        if e is not None and path_of(e) == f"DEFAULT_ENV.{name}":
            rr.ok(pkg.relpath, f"jsonpath.{name} = DEFAULT_ENV.{name}")
        else:
            rr.bad(None, None, f"jsonpath.{name} must be DEFAULT_ENV.{name}", construct=f"jsonpath.{name}",
                   file=pkg.relpath, qualname=f"jsonpath.{name}")
    return rr


def r11_2(ctx: Ctx) -> RuleResult:
    rr = RuleResult("R11.2", "findall / match / query are projections of finditer", floor=6)
    jp = ctx.repo.require_class("jsonpath.path.JSONPath")
    comp = ctx.repo.require_class("jsonpath.path.CompoundJSONPath")
    for name, it in (("findall", "finditer"), ("findall_async", "finditer_async")):
        fn = jp.methods.get(name)
        if fn is None:
            raise AnalysisError(f"JSONPath.{name} not found")
        v = _single_return(fn)
        if v is None:
            raise _shape_error("R11.2", fn)
        ok = False
        if isinstance(v, ast.ListComp) and len(v.generators) == 1 and not v.generators[0].ifs:
            g = v.generators[0]
            src = g.iter.value if isinstance(g.iter, ast.Await) else g.iter
            if (
                isinstance(v.elt, ast.Attribute) and v.elt.attr == "obj" and path_of(v.elt.value) == path_of(g.target)
                and isinstance(src, ast.Call) and isinstance(src.func, ast.Attribute) and src.func.attr == it
                and path_of(src.func.value) == "self" and _forwards(src, ["data"], ["filter_context"])
            ):
                ok = True
        if ok:
            rr.ok(fn.loc(), f"JSONPath.{name}: [m.obj for m in self.{it}(data, filter_context=filter_context)]")
        else:
            rr.bad(fn, fn.node, f"JSONPath.{name} must be the list of values of self.{it}(...) without a condition",
                   construct=f"{name}: {short(v) if v is not None else ''}")
    for cls in (jp, comp):
        m = cls.methods.get("match")
        if m is None:
            raise AnalysisError(f"{cls.name}.match not found")
        tries = [n for n in m.node.body if isinstance(n, ast.Try)]
        ok = False
        if len(tries) == 1 and len(tries[0].body) == 1 and isinstance(tries[0].body[0], ast.Return):
            v = tries[0].body[0].value
            if isinstance(v, ast.Call) and callee_name(v) == "next" and len(v.args) == 1:
                a = v.args[0]
                if isinstance(a, ast.Call) and callee_name(a) == "iter" and len(a.args) == 1:
                    a = a.args[0]
                if (
                    isinstance(a, ast.Call) and isinstance(a.func, ast.Attribute) and a.func.attr == "finditer"
                    and path_of(a.func.value) == "self" and _forwards(a, ["data"], ["filter_context"])
                ):
                    hs = tries[0].handlers
                    if len(hs) == 1 and hs[0].type is not None and path_of(hs[0].type) == "StopIteration":
                        rets = [r for r in hs[0].body if isinstance(r, ast.Return)]
                        if rets and isinstance(rets[0].value, ast.Constant) and rets[0].value.value is None:
                            ok = True
        # no other way out: every return is the first element or the None of the StopIteration handler
        extra = [
            r for r in ast.walk(m.node)
            if isinstance(r, ast.Return) and not (
                len(tries) == 1 and (r in tries[0].body or any(r in h.body for h in tries[0].handlers))
            )
        ]
        if ok and extra:
            ok = False
            rr.bad(m, extra[0], f"{cls.name}.match returns `{short(extra[0])}` on a path that does not take the first "
                   "element of self.finditer(...): match() can then disagree with finditer/findall",
                   construct=f"{cls.name}.match: extra return {short(extra[0])}")
            continue
        if ok:
            rr.ok(m.loc(), f"{cls.name}.match: first element of self.finditer(...) or None")
        else:
            rr.bad(m, m.node, f"{cls.name}.match must be next(iter(self.finditer(data, filter_context=...))) or None",
                   construct=f"{cls.name}.match shape")
        q = cls.methods.get("query")
        if q is None:
            raise AnalysisError(f"{cls.name}.query not found")
        v = _single_return(q)
        if v is None:
            raise _shape_error("R11.2", q)
        ok = False
        if isinstance(v, ast.Call) and callee_name(v) == "Query" and len(v.args) == 2 and path_of(v.args[1]) == "self.env":
            a = v.args[0]
            if (
                isinstance(a, ast.Call) and isinstance(a.func, ast.Attribute) and a.func.attr == "finditer"
                and path_of(a.func.value) == "self" and _forwards(a, ["data"], ["filter_context"])
            ):
                ok = True
        if ok:
            rr.ok(q.loc(), f"{cls.name}.query: Query(self.finditer(...), self.env)")
        else:
            rr.bad(q, q.node, f"{cls.name}.query must wrap self.finditer(data, filter_context=...)",
                   construct=f"{cls.name}.query shape")
    return rr


def _plan(ctx: Ctx, fn: FuncInfo) -> Tuple[Dict[str, str], List[str]]:
    """Abstract a compound find* implementation into its combination plan."""
    problems: List[str] = []
    plan: Dict[str, str] = {}
    base = fn.name
    body = _strip_docstring(fn.node.body)
    # a leading `if isinstance(data, IOBase): data = load_data(data)` is the single loader (R11.7)
    body = [
        s for s in body
        if not (isinstance(s, ast.If) and not s.orelse and all(
            isinstance(x, ast.Assign) and isinstance(x.value, ast.Call) and callee_name(x.value) == "load_data" for x in s.body))
    ]
    init = [s for s in body if isinstance(s, ast.Assign)]
    loops = [s for s in body if isinstance(s, (ast.For, ast.AsyncFor))]
    rets = [s for s in body if isinstance(s, ast.Return)]
    if not init or len(loops) != 1 or len(rets) != 1:
        return plan, ["not `acc = ...; for op, path in self.paths: ...; return acc`"]
    acc = path_of(init[0].targets[0])
    iv = init[0].value.value if isinstance(init[0].value, ast.Await) else init[0].value
    if not (
        isinstance(iv, ast.Call) and isinstance(iv.func, ast.Attribute) and path_of(iv.func.value) == "self.path"
        and iv.func.attr == base and _forwards(iv, ["data"], ["filter_context"])
    ):
        problems.append(f"accumulator is not self.path.{base}(data, filter_context=filter_context)")
    plan["init"] = "self.path"
    loop = loops[0]
    if path_of(loop.iter) != "self.paths" or not (isinstance(loop.target, ast.Tuple) and len(loop.target.elts) == 2):
        problems.append("does not iterate `for op, path in self.paths`")
        return plan, problems
    opv, pathv = path_of(loop.target.elts[0]), path_of(loop.target.elts[1])
    plan["order"] = "self.paths in order"
    # right-hand result
    rights = [
        s for s in loop.body if isinstance(s, ast.Assign)
    ]
    right = None
    for s in rights:
        v = s.value.value if isinstance(s.value, ast.Await) else s.value
        if isinstance(v, ast.Call) and isinstance(v.func, ast.Attribute) and path_of(v.func.value) == pathv and v.func.attr == base:
            if not _forwards(v, ["data"], ["filter_context"]):
                problems.append("right operand is not evaluated with (data, filter_context=filter_context)")
            right = path_of(s.targets[0])
    if right is None:
        problems.append(f"right operand is not {pathv}.{base}(...)")
        return plan, problems
    ifs = [s for s in loop.body if isinstance(s, ast.If)]
    if len(ifs) != 1:
        problems.append("no single union/intersection branch")
        return plan, problems
    t = ifs[0].test
    if not (
        isinstance(t, ast.Compare) and path_of(t.left) == opv and isinstance(t.ops[0], ast.Eq)
        and path_of(t.comparators[0]) == "self.env.union_token"
    ):
        problems.append("the branch test is not `op == self.env.union_token`")
    # union branch
    u = ifs[0].body
    union = None
    for s in u:
        if isinstance(s, ast.Expr) and isinstance(s.value, ast.Call) and callee_name(s.value) == "extend":
            if path_of(s.value.func.value) == acc and [path_of(a) for a in s.value.args] == [right]:  # type: ignore[union-attr]
                union = "acc then right"
            else:
                union = f"extend({short(s.value)})"
        if isinstance(s, ast.Assign) and path_of(s.targets[0]) == acc and isinstance(s.value, ast.Call) and callee_name(s.value) in ("chain", "_achain"):
            args = [path_of(a) for a in s.value.args]
            union = "acc then right" if args == [acc, right] else f"chain({args})"
    plan["union"] = union or "?"
    # intersection branch
    inter_src = inter_val = inter_container = None
    values_var = None
    for s in ifs[0].orelse:
        if isinstance(s, ast.Assign) and isinstance(s.value, ast.ListComp) and path_of(s.targets[0]) != acc:
            g = s.value.generators[0]
            if path_of(g.iter) == right and isinstance(s.value.elt, ast.Attribute) and s.value.elt.attr == "obj" and not g.ifs:
                values_var = path_of(s.targets[0])
        if isinstance(s, ast.Assign) and path_of(s.targets[0]) == acc and isinstance(s.value, ast.Call) and values_var is not None:
            # a helper generator `acc = H(acc, right_values)`: yield x for x in p0 if x.obj in p1
            site = ctx.callgraph.by_node.get(id(s.value))
            helper = site.callees[0] if site is not None and len(site.callees) == 1 else None
            args = [path_of(a) for a in s.value.args]
            if helper is not None and len(args) == 2:
                hp = [a.arg for a in helper.node.args.args]
                loops_h = [x for x in helper.node.body if isinstance(x, (ast.For, ast.AsyncFor))]
                if len(hp) == 2 and len(loops_h) == 1 and path_of(loops_h[0].iter) == hp[0] and len(loops_h[0].body) == 1 and isinstance(loops_h[0].body[0], ast.If):
                    cond = loops_h[0].body[0]
                    elem = path_of(loops_h[0].target)
                    ys = [y for y in cond.body if isinstance(y, ast.Expr) and isinstance(y.value, ast.Yield)]
                    if (
                        not cond.orelse and len(ys) == 1 and path_of(ys[0].value.value) == elem  # type: ignore[union-attr]
                        and isinstance(cond.test, ast.Compare) and isinstance(cond.test.ops[0], ast.In)
                        and path_of(cond.test.left) == f"{elem}.obj" and path_of(cond.test.comparators[0]) == hp[1]
                    ):
                        inter_src = args[0]
                        inter_val = "value"
                        inter_container = "right values" if args[1] == values_var else f"?{args[1]}"
        if isinstance(s, ast.Assign) and path_of(s.targets[0]) == acc and isinstance(s.value, (ast.ListComp, ast.GeneratorExp)):
            g = s.value.generators[0]
            inter_src = path_of(g.iter)
            elem = path_of(g.target)
            if path_of(s.value.elt) != elem:
                problems.append("intersection does not keep the left elements themselves")
            if len(g.ifs) == 1 and isinstance(g.ifs[0], ast.Compare) and isinstance(g.ifs[0].ops[0], ast.In):
                lv = path_of(g.ifs[0].left)
                inter_val = "value" if lv in (elem, f"{elem}.obj") else f"?{lv}"
                cont = path_of(g.ifs[0].comparators[0])
                if cont == right and lv == elem:
                    inter_container = "right values"
                elif values_var is not None and cont == values_var and lv == f"{elem}.obj":
                    inter_container = "right values"
                else:
                    inter_container = f"?{cont}"
            else:
                problems.append("intersection has no single membership condition")
    plan["intersection"] = f"elements of {'acc' if inter_src == acc else inter_src} whose {inter_val} is in {inter_container}"
    if path_of(rets[0].value) != acc:
        problems.append("does not return the accumulator")
    return plan, problems


def r11_3(ctx: Ctx) -> RuleResult:
    rr = RuleResult("R11.3", "the four compound implementations realise the same plan", floor=4)
    comp = ctx.repo.require_class("jsonpath.path.CompoundJSONPath")
    want = {
        "init": "self.path",
        "order": "self.paths in order",
        "union": "acc then right",
        "intersection": "elements of acc whose value is in right values",
    }
    for name in ("findall", "finditer", "findall_async", "finditer_async"):
        fn = comp.methods.get(name)
        if fn is None:
            raise AnalysisError(f"CompoundJSONPath.{name} not found")
        plan, problems = _plan(ctx, fn)
        diffs = [f"{k}: {plan.get(k)!r} (expected {v!r})" for k, v in want.items() if plan.get(k) != v]
        if not problems and not diffs:
            rr.ok(fn.loc(), f"{name}: left result, then for each (op, path): union = left followed by right; "
                  "intersection = left elements whose value is among the right values")
        else:
            rr.bad(fn, fn.node, f"CompoundJSONPath.{name} deviates from the combination plan of its siblings: "
                   + "; ".join(problems + diffs), construct=f"{name}: " + "; ".join(problems + diffs))
    return rr


def r11_4(ctx: Ctx) -> RuleResult:
    rr = RuleResult("R11.4", "one loader; the loaded value is both root and start node", floor=2)
    jp = ctx.repo.require_class("jsonpath.path.JSONPath")
    for name in ("finditer", "finditer_async"):
        fn = jp.methods.get(name)
        if fn is None:
            raise AnalysisError(f"JSONPath.{name} not found")
        body = _strip_docstring(fn.node.body)
        first = body[0] if body else None
        loaded = None
        if (
            isinstance(first, ast.Assign) and isinstance(first.value, ast.Call) and callee_name(first.value) == "load_data"
            and [path_of(a) for a in first.value.args] == ["data"]
        ):
            loaded = path_of(first.targets[0])
        if loaded is None:
            rr.bad(fn, fn.node, "the document must be loaded with load_data(data) first", construct=f"{name}: load_data first")
            continue
        ok = True
        n = 0
        for c in calls(fn.node):
            if callee_name(c) in ("JSONPathMatch", "match_class"):
                n += 1
                root = kw(c, "root")
                obj = kw(c, "obj")
                if path_of(root) != loaded if root is not None else True:
                    ok = False
                uses = {x.id for x in ast.walk(obj) if isinstance(x, ast.Name)} if obj is not None else set()
                if loaded not in uses or "data" in uses:
                    ok = False
        if ok and n:
            rr.ok(fn.loc(), f"{name}: {loaded} = load_data(data) is root and start node")
        else:
            rr.bad(fn, fn.node, "the root match must use the loaded document as root and as its value",
                   construct=f"{name}: root match")
    return rr


def r11_5(ctx: Ctx) -> RuleResult:
    """Every operand of a compound query records its own root kind (= R13.6)."""
    from .c13 import r13_6

    rr = r13_6(ctx)
    rr.rule = "R11.5"
    for f in rr.findings:
        f.rule = "R11.5"
    return rr


def r11_6(ctx: Ctx) -> RuleResult:
    """Lazily evaluated code created in a loop must not capture a variable that
    a later iteration rebinds (Python closures and generator expressions bind
    late): with two or more `&` operands every intersection would be filtered
    by the *last* operand's values."""
    rr = RuleResult("R11.6", "lazy compound pipelines do not capture loop-rebound variables", floor=2)
    comp = ctx.repo.require_class("jsonpath.path.CompoundJSONPath")
    n = 0
    for name, fn in sorted(comp.methods.items()):
        for loop in [x for x in ast.walk(fn.node) if isinstance(x, (ast.For, ast.AsyncFor))]:
            rebound = set()
            for x in ast.walk(loop):
                if isinstance(x, ast.Name) and isinstance(x.ctx, ast.Store):
                    rebound.add(x.id)
            for g in [x for x in ast.walk(loop) if isinstance(x, (ast.GeneratorExp, ast.Lambda))]:
                n += 1
                if isinstance(g, ast.GeneratorExp):
                    own = {y.id for gen in g.generators for y in ast.walk(gen.target) if isinstance(y, ast.Name)}
                    lazy_parts = [g.elt] + [c for gen in g.generators for c in gen.ifs] + [gen.iter for gen in g.generators[1:]]
                else:
                    own = {a.arg for a in g.args.args}
                    lazy_parts = [g.body]
                captured = {
                    y.id for part in lazy_parts for y in ast.walk(part)
                    if isinstance(y, ast.Name) and isinstance(y.ctx, ast.Load) and y.id in rebound and y.id not in own
                }
                if captured:
                    rr.bad(fn, g, f"the lazily evaluated `{short(g, 80)}` refers to {sorted(captured)}, which the "
                           "enclosing loop rebinds on its next iteration: when the pipeline is finally consumed, "
                           "every intersection is filtered by the last operand's values "
                           "(`$.a.* & $.b.* & $.c.*` differs between finditer and findall)",
                           construct=f"{name}: lazy capture of {sorted(captured)}")
                else:
                    rr.ok(fn.loc(g), f"{fn.qualname}: `{short(g, 60)}` captures no loop-rebound variable")
    # helper generator functions bind their arguments at call time: count them as instances too
    for name, fn in sorted(comp.methods.items()):
        for c in calls(fn.node):
            callee = ctx.callgraph.by_node.get(id(c))
            if callee is not None and callee.callees and any(_is_generator(x) for x in callee.callees) and callee.callees[0].module.name == "jsonpath.path":
                n += 1
                rr.ok(fn.loc(c), f"{fn.qualname}: `{short(c, 60)}` binds its arguments when called")
    if n < 2:
        raise AnalysisError("R11.6: no lazy pipeline stage found in the compound iterators")
    return rr


def _is_generator(fn: FuncInfo) -> bool:
    from sa.callgraph import _own_nodes

    return any(isinstance(x, (ast.Yield, ast.YieldFrom)) for x in _own_nodes(fn.node))


def r11_7(ctx: Ctx) -> RuleResult:
    """A document given as text or as a readable file is read once: operands of a
    compound query must not each load it again (a file object is empty the second time)."""
    rr = RuleResult("R11.7", "a compound query loads its document once", floor=4)
    comp = ctx.repo.require_class("jsonpath.path.CompoundJSONPath")
    for name in ("findall", "finditer", "findall_async", "finditer_async"):
        fn = comp.methods.get(name)
        if fn is None:
            raise AnalysisError(f"CompoundJSONPath.{name} not found")
        dparam = fn.node.args.args[1].arg
        # names holding the loaded document
        loaded = {
            path_of(a.targets[0]) for a in ast.walk(fn.node)
            if isinstance(a, ast.Assign) and isinstance(a.value, ast.Call) and callee_name(a.value) == "load_data"
            and a.value.args and path_of(a.value.args[0]) == dparam
        }
        operand_calls = [
            c for c in calls(fn.node)
            if callee_name(c) in ("findall", "finditer", "findall_async", "finditer_async") and c.args
        ]
        raw = [c for c in operand_calls if path_of(c.args[0]) == dparam and dparam not in loaded]
        if len(raw) > 1 or (raw and any(isinstance(x, (ast.For, ast.AsyncFor)) for x in ast.walk(fn.node))):
            rr.bad(fn, raw[0], f"every operand of the compound query is given the caller's `{dparam}` and loads it "
                   "again: a readable file yields its text only once, so the second operand fails to decode it",
                   construct=f"{name}: operands reload {dparam}")
        else:
            rr.ok(fn.loc(), f"{name}: operands are evaluated on the document loaded once ({sorted(x for x in loaded if x)})")
    return rr


RULES = [r11_1, r11_2, r11_3, r11_4, r11_5, r11_6, r11_7]
