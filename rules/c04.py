"""C04 - JSON Pointer resolution conforms to RFC 6901.

R4.1 tokens are decoded `~1` then `~0` and encoded in the inverse order; the
     decoding sites agree with one another.
R4.2 `int()` is not a recogniser of RFC 6901 array indices: every conversion of
     a reference token to an index is dominated by a canonical-form test.
R4.3 no token applies to a string (scalars of other kinds are refused by
     getitem itself; that path is covered by the escape analysis).
R4.4 `exists` is success of `resolve`.
R4.5 the unicode-escape decoder is only fed bytes that preserve non-ASCII text.
R4.6 resolution raises only the pointer-resolution family (escape analysis).
"""

from __future__ import annotations

import ast
import re
from typing import List
from typing import Optional
from typing import Tuple

from sa import regexast
from sa.consteval import NotConst
from sa.consteval import RegexConst
from sa.consteval import Scope
from sa.kinds import JSON_KINDS
from sa.kinds import KindDomain
from sa.kinds import STRING
from sa.kinds import path_of
from sa.flow import Flow
from sa.loader import AnalysisError
from sa.loader import FuncInfo
from sa.loader import short
from sa.report import RuleResult

from . import Ctx
from .common import callee_name
from .common import calls
from .common import kw
from .common import outermost_replace_chains

CANONICAL_INDEX = re.compile(r"(?:0|-?[1-9][0-9]*)\Z")


def pointer_funcs(ctx: Ctx) -> List[FuncInfo]:
    mod = ctx.repo.modules.get("jsonpath.pointer")
    if mod is None:
        raise AnalysisError("jsonpath/pointer.py not found")
    own = [f for f in ctx.repo.functions.values() if f.module is mod]
    # ... and what they call in the package's private helper modules (`jsonpath/_pointer_codec.py`, `_rfc6901.py`): code
    # moved out of pointer.py is still the pointer's code
    try:
        reach = ctx.callgraph.reachable(own)
    except Exception:  # noqa: BLE001
        reach = {}
    extra = [ctx.repo.functions[q] for q in reach if q in ctx.repo.functions and ctx.repo.functions[q].module is not mod
             and ctx.repo.functions[q].module.name.split(".")[-1].startswith("_") and ctx.repo.functions[q].module.name not in ("jsonpath._data",)]
    return own + [f for f in extra if f not in own]


def r4_1(ctx: Ctx, rule: str = "R4.1") -> RuleResult:
    rr = RuleResult(rule, "~1 decoded before ~0; ~ encoded before /; decoding sites agree", floor=3)
    decoders = []
    encoders = []
    for fn in pointer_funcs(ctx):
        # (successive statements `s = s.replace(a, b)` - a table of escapes written out - are one chain)
        dec_parts, enc_parts = [], []
        for call, base, chain in outermost_replace_chains(fn.node):
            srcs = [a for a, _ in chain]
            if "~1" in srcs or "~0" in srcs:
                dec_parts.append((call, chain))
            elif any(b in ("~0", "~1") for _, b in chain):
                enc_parts.append((call, chain))
        for parts_, sink in ((dec_parts, decoders), (enc_parts, encoders)):
            if len(parts_) > 1 and all(len(ch) == 1 for _c, ch in parts_):
                sink.append((fn, parts_[0][0], [p_ for _c, ch in sorted(parts_, key=lambda t: (t[0].lineno, t[0].col_offset)) for p_ in ch]))
            else:
                sink.extend((fn, c_, ch) for c_, ch in parts_)
    for fn, call, chain in decoders:
        pairs = [p for p in chain if p[0] in ("~0", "~1")]
        if ("~1", "/") not in pairs or ("~0", "~") not in pairs:
            rr.bad(fn, call, "a reference-token decoder must map `~1` to `/` and `~0` to `~`; "
                   f"found {pairs}", construct=f"decode chain {pairs}")
        elif pairs.index(("~1", "/")) > pairs.index(("~0", "~")):
            rr.bad(fn, call, "`~0` is decoded before `~1`: the token `~01` becomes `/` instead of `~1`",
                   construct=f"decode chain {pairs}")
        else:
            rr.ok(fn.loc(call), f"{fn.qualname}: decode {pairs}")
    if decoders:
        first = [p for p in decoders[0][2] if p[0] in ("~0", "~1")]
        for fn, call, chain in decoders[1:]:
            if [p for p in chain if p[0] in ("~0", "~1")] != first:
                rr.bad(fn, call, f"decoding sites disagree: {decoders[0][0].qualname} uses {first}",
                       construct=f"decode chain differs from {decoders[0][0].name}")
    for fn, call, chain in encoders:
        pairs = [p for p in chain if p[1] in ("~0", "~1")]
        if ("~", "~0") not in pairs or ("/", "~1") not in pairs:
            rr.bad(fn, call, f"the encoder must map `~` to `~0` and `/` to `~1`; found {pairs}",
                   construct=f"encode chain {pairs}")
        elif pairs.index(("~", "~0")) > pairs.index(("/", "~1")):
            rr.bad(fn, call, "`/` is encoded before `~`: the `~` of `~1` is then escaped again",
                   construct=f"encode chain {pairs}")
        else:
            rr.ok(fn.loc(call), f"{fn.qualname}: encode {pairs}")
    # an encoder written as one simultaneous character translation: `token.translate({ord("~"): "~0", ord("/"): "~1"})`
    n_translate = 0
    for fn in pointer_funcs(ctx):
        for c in calls(fn.node, "translate"):
            if len(c.args) != 1:
                continue
            try:
                table = ctx.folder.eval_in(c.args[0], fn.module, fn.cls)
            except NotConst:
                continue
            if not isinstance(table, dict):
                continue
            norm = {(chr(k) if isinstance(k, int) else k): v for k, v in table.items()}
            if "~" in norm or "/" in norm:
                n_translate += 1
                if norm.get("~") == "~0" and norm.get("/") == "~1":
                    rr.ok(fn.loc(c), f"{fn.qualname}: encode by simultaneous translation {norm}")
                else:
                    rr.bad(fn, c, f"the encoder must map `~` to `~0` and `/` to `~1`; the translation table is {norm}",
                           construct=f"encode table {sorted(norm.items())}")
    if (not encoders and not n_translate) or not decoders:
        # neither idiom (the escapes may live in a table that a loop walks): the codec is executed instead
        return _codec_on_samples(ctx, rule, rr)
    # both entry points that take pointer text decode its tokens (directly or through a helper)
    dec_funcs = {fn.qualname for fn, _, _ in decoders}
    for name in ("JSONPointer._parse", "JSONPointer.__truediv__"):
        fn = ctx.repo.require_func(name)
        reach = ctx.callgraph.reachable([fn])
        if dec_funcs & set(reach):
            rr.ok(fn.loc(), f"{fn.qualname} decodes reference tokens via {sorted(q.split('.')[-1] for q in dec_funcs & set(reach))}")
        else:
            rr.bad(fn, fn.node, f"{fn.qualname} takes pointer text but never decodes `~0` / `~1`",
                   construct=f"{fn.name}: no token decoding")
    return rr


def _codec_on_samples(ctx: Ctx, rule: str, rr: RuleResult) -> RuleResult:
    """The reference-token codec by abstract execution (rules/model.py): for tokens that cover the two escapes and
    their interplay, `from_parts([token])` must print `/` + the RFC 6901 escape of the token, parsing that text must
    give the token back, and so must joining it with `/` (the second place that decodes)."""
    from sa.peval import UNKNOWN

    from .model import RAISES
    from .model import ClassModel
    from .model import MObj
    from .model import Model
    from .model import _ConstructorRaises

    P = "jsonpath.pointer.JSONPointer"
    cls = ctx.repo.require_class(P)
    enc = ctx.repo.find_method(cls, "_encode") or ctx.repo.find_method(cls, "__str__")
    par = ctx.repo.find_method(cls, "_parse")
    if enc is None or par is None:
        raise AnalysisError(f"{rule}: JSONPointer._encode / _parse not found")
    model = Model(ctx, rule)
    model.whole_bodies = model.auto_construct = model.exact_exceptions = model.heap = True
    cm = ClassModel(model, P, {})
    for tok in ("~", "/", "~1", "~0", "~01", "~10", "~~", "//", "a/b~c", "~/", "/~", "x", ""):
        want = "/" + tok.replace("~", "~0").replace("/", "~1")
        built = model.call(cm, "from_parts", [[tok]], {"unicode_escape": False})
        text = model.call(built, "__str__", []) if isinstance(built, MObj) else UNKNOWN
        if text is UNKNOWN or text is RAISES:
            raise AnalysisError(f"{rule}: how the token {tok!r} is encoded cannot be determined")
        if text != want:
            rr.bad(enc, enc.node, f"the reference token {tok!r} is written as {text!r}; RFC 6901 spells it {want!r} (`~` becomes `~0` first, then `/` becomes `~1`)",
                   construct=f"encode {tok!r} -> {text!r}")
            continue
        try:
            parsed = model.new(P, want, unicode_escape=False)
        except _ConstructorRaises:
            rr.bad(par, par.node, f"the pointer {want!r} is refused", construct=f"parse {want!r} raises")
            continue
        joined = model.call(model.new(P, "", unicode_escape=False), "__truediv__", [want[1:]]) if True else None
        got1 = parsed.fields.get("parts")
        got2 = joined.fields.get("parts") if isinstance(joined, MObj) else UNKNOWN
        if got1 is UNKNOWN or got2 is UNKNOWN:
            raise AnalysisError(f"{rule}: how {want!r} is decoded cannot be determined")
        if tuple(str(x) for x in got1) != (tok,) or tuple(str(x) for x in got2) != (tok,):  # type: ignore[union-attr]
            rr.bad(par, par.node, f"the pointer text {want!r} decodes to {got1!r} (parsed) / {got2!r} (joined); RFC 6901 decodes it to the token {tok!r} "
                   "(`~1` becomes `/` first, then `~0` becomes `~`)", construct=f"decode {want!r} -> {got1!r} / {got2!r}")
        else:
            rr.ok(enc.loc(), f"{tok!r} <-> {want!r} (encoder, parser and `/` executed abstractly)")
    return rr


def _pattern_canonical(ctx: Ctx, fn: FuncInfo, pat_expr: str) -> Optional[str]:
    """None if the folded pattern's language is inside canonical decimal, else a witness."""
    try:
        v = ctx.folder.eval(ast.parse(pat_expr, mode="eval").body, Scope(ctx.folder, fn.module, fn.cls))
    except (NotConst, SyntaxError):
        return f"pattern `{pat_expr}` is not a constant"
    if not isinstance(v, RegexConst):
        return f"`{pat_expr}` is not a compiled pattern"
    for s in regexast.shapes(regexast.parse(v.pattern, v.flags)):
        if not CANONICAL_INDEX.match(s):
            return f"pattern {v.pattern!r} admits {s!r}"
    return None


def index_conversion_sites(ctx: Ctx) -> List[Tuple[FuncInfo, ast.Call]]:
    """int(x) sites in JSONPointer methods whose operand is a token string."""
    cls = ctx.repo.require_class("jsonpath.pointer.JSONPointer")
    out = []
    po = ctx.partial
    for fn in cls.methods.values():
        for c in calls(fn.node, "int"):
            if not (isinstance(c.func, ast.Name) and len(c.args) == 1):
                continue
            names = po._tynames(fn, c.args[0])
            if names is not None and names <= {"int", "bool", "float"}:
                continue
            out.append((fn, c))
    return out


def r4_2(ctx: Ctx, rule: str = "R4.2") -> RuleResult:
    rr = RuleResult(rule, "reference tokens become indices only in canonical decimal form", floor=1)
    po = ctx.partial
    anchor = ctx.repo.get_func("JSONPointer._index")
    if anchor is None:
        raise AnalysisError(f"{rule}: JSONPointer._index not found")
    found_in_anchor = False
    for fn, c in index_conversion_sites(ctx):
        if fn is anchor:
            found_in_anchor = True
        arg = c.args[0]
        p = path_of(arg)
        facts = po._facts(fn, c)
        ok = None
        why = "no dominating canonical-form test"
        if p is not None:
            for ev in facts:
                if ev.startswith("rematch:") and ev.endswith("@" + p):
                    _, pat_expr, how = ev[: -len("@" + p)].split(":", 2)
                    if how != "fullmatch":
                        why = f"`{pat_expr}.{how}` does not anchor the end of the token"
                        continue
                    w = _pattern_canonical(ctx, fn, pat_expr)
                    if w is None:
                        ok = f"dominated by {pat_expr}.fullmatch()"
                    else:
                        why = w
        # the operand was produced by the canonical recogniser itself
        if ok is None and isinstance(arg, ast.Name):
            src = [
                n.value for n in ast.walk(fn.node)
                if isinstance(n, ast.Assign) and any(isinstance(t, ast.Name) and t.id == arg.id for t in n.targets)
            ]
            if src and all(isinstance(s, ast.Call) and callee_name(s) == "_index" for s in src):
                ok = "operand is the result of _index()"
        # the `#`-prefixed index token is a documented extension (outside the clause)
        if ok is None and isinstance(arg, ast.Subscript) and isinstance(arg.slice, ast.Slice):
            rr.ok(fn.loc(c), f"{fn.qualname}: {short(c)} - `#` index extension, outside the clause")
            continue
        if ok:
            rr.ok(fn.loc(c), f"{fn.qualname}: {short(c)} {ok}")
        else:
            rr.bad(fn, c,
                   "int() accepts more than RFC 6901 array-index (`+1`, ` 1`, `1_0`, non-ASCII "
                   f"digits): {why}; such tokens must stay member names",
                   construct=short(c))
    if not found_in_anchor:
        raise AnalysisError(f"{rule}: no token-to-index conversion found in JSONPointer._index")
    return rr


def r4_3(ctx: Ctx) -> RuleResult:
    rr = RuleResult("R4.3", "no reference token applies to a string", floor=1)
    fn = ctx.repo.require_func("JSONPointer._getitem")
    params = [a.arg for a in fn.node.args.args]
    if len(params) < 3:
        raise AnalysisError("R4.3: JSONPointer._getitem(self, obj, key) signature changed")
    obj = params[1]
    dom = KindDomain(defaults={obj: JSON_KINDS})
    flow = Flow(fn.node, dom)
    n = 0
    # every expression that takes an element of the target, wherever its value goes
    for node in ast.walk(fn.node):
        elem = None
        if isinstance(node, ast.Call) and callee_name(node) == "getitem" and node.args and path_of(node.args[0]) == obj:
            elem = node
        elif isinstance(node, ast.Subscript) and isinstance(node.ctx, ast.Load) and path_of(node.value) == obj:
            elem = node
        if elem is None:
            continue
        n += 1
        st = flow.at.get(id(elem))
        if st is None:
            rr.ok(fn.loc(node), f"{short(node)} unreachable")
            continue
        ks = dom.lookup(st, obj) & JSON_KINDS
        in_keyerror = ctx.partial._in_keyerror_retry(fn, elem, elem.args[0]) if isinstance(elem, ast.Call) else False
        if STRING in ks and not in_keyerror:
            if obj in st.murky:
                raise AnalysisError("R4.3: guard on the target uses a condition the kind analysis does not understand")
            rr.bad(fn, node, f"`{short(node)}` is reachable with a str target: Python indexes strings, so "
                   "`/a/0` applied to {\"a\": \"xyz\"} yields 'x' instead of a resolution error",
                   construct=short(node))
        else:
            rr.ok(fn.loc(node), f"{short(node)}: target kinds {sorted(ks)}")
    if n == 0:
        raise AnalysisError("R4.3: no element-returning statement found in _getitem")
    return rr


def r4_4(ctx: Ctx) -> RuleResult:
    rr = RuleResult("R4.4", "exists() is success of resolve()", floor=1)
    fn = ctx.repo.require_func("JSONPointer.exists")
    data = fn.node.args.args[1].arg
    tries = [n for n in ast.walk(fn.node) if isinstance(n, ast.Try)]
    if len(tries) != 1:
        # not written as one try statement (`with suppress(...)`, a helper, a default sentinel): whether exists() agrees
        # with resolve() is then what R4.9 establishes by executing both on every node and every kind of unevaluable
        # pointer of its covering document (R4.9 fails the run if it cannot follow them)
        rr.floor = 0
        rr.ok(fn.loc(), "exists() is not one try statement; its agreement with resolve() is decided by execution (R4.9)")
        rr.note("R4.4 deferred to R4.9")
        return rr
    t = tries[0]
    res = [c for s in t.body for c in calls(s, "resolve")]
    good_call = [
        c for c in res
        if isinstance(c.func, ast.Attribute) and path_of(c.func.value) == "self"
        and len(c.args) == 1 and path_of(c.args[0]) == data and not c.keywords
    ]
    if not good_call:
        rr.bad(fn, t, "exists() must call self.resolve(data) on the unmodified argument without a default",
               construct="self.resolve(data)")
        return rr
    ok = True
    for h in t.handlers:
        types = ctx.escapes._handler_types(fn, h)
        for ty_ in types:
            if not (ctx.repo.is_subclass("JSONPointerResolutionError", ty_)):
                rr.bad(fn, h, f"handler class {ty_.split('.')[-1]} is not JSONPointerResolutionError or a superclass",
                       construct=f"except {short(h.type)}")
                ok = False
    # every way out: False through a handler, True otherwise (partial evaluation of the body)
    from sa.peval import Explorer

    ex = Explorer(ctx.folder, fn)
    outs = ex.run({})
    for (kind, node, value), env in zip(outs, ex.envs):
        through = bool(env.get("$handlers"))
        if through and not (kind == "return" and value is False):
            rr.bad(fn, node or t, "the handler must return False", construct="return False in handler")
            ok = False
        elif not through and not (kind == "return" and value is True):
            rr.bad(fn, node or fn.node, "exists() must return True exactly when resolve() succeeds",
                   construct="return True after try")
            ok = False
    if not any(ctx.escapes.catches(ty_, ctx.repo.require_class("JSONPointerResolutionError").qualname)
               for h in t.handlers for ty_ in ctx.escapes._handler_types(fn, h)):
        rr.bad(fn, t, "no handler catches JSONPointerResolutionError", construct="except JSONPointerResolutionError")
        ok = False
    if ok:
        rr.ok(fn.loc(t), "exists(): try self.resolve(data) / except resolution error: False / True")
    return rr


_IDENTITY_ENCODINGS = {"latin-1", "latin1", "iso-8859-1", "iso8859-1", "l1"}


def r4_5(ctx: Ctx, rule: str = "R4.5") -> RuleResult:
    rr = RuleResult(rule, "unicode-escape decoder is fed bytes that preserve non-ASCII text", floor=1)
    for fn in pointer_funcs(ctx):
        for c in calls(fn.node, "decode"):
            codec = None
            subject: Optional[ast.expr] = None
            if isinstance(c.func, ast.Attribute) and path_of(c.func.value) == "codecs" and len(c.args) >= 2:
                subject, codec = c.args[0], c.args[1]
            elif isinstance(c.func, ast.Attribute) and c.args:
                subject, codec = c.func.value, c.args[0]
            if not (isinstance(codec, ast.Constant) and str(codec.value).replace("_", "-").lower() in ("unicode-escape", "unicode-escape")):
                continue
            assert subject is not None
            ok = False
            if (
                isinstance(subject, ast.Call)
                and isinstance(subject.func, ast.Attribute)
                and subject.func.attr == "encode"
                and len(subject.args) >= 2
                and isinstance(subject.args[0], ast.Constant)
                and str(subject.args[0].value).lower() in _IDENTITY_ENCODINGS
                and isinstance(subject.args[1], ast.Constant)
                and subject.args[1].value == "backslashreplace"
            ):
                ok = True
            if ok:
                rr.ok(fn.loc(c), f"{fn.qualname}: input encoded latin-1/backslashreplace")
            else:
                rr.bad(fn, c, "the unicode-escape decoder applied to a str (or to bytes of another "
                       "encoding) re-interprets non-ASCII characters as Latin-1: `/é` resolves the "
                       "member `Ã©`; encode with latin-1 + backslashreplace first",
                       construct=short(c, 120))
    return rr


def r4_6(ctx: Ctx) -> RuleResult:
    rr = RuleResult("R4.6", "resolution raises only pointer errors", floor=3)
    esc = ctx.escapes
    for name in ("JSONPointer.resolve", "JSONPointer.resolve_parent", "JSONPointer.exists", "jsonpath.pointer.resolve"):
        fn = ctx.repo.require_func(name)
        bad = []
        for cls, origins in esc.function_escapes_all(fn).items():
            if ctx.repo.is_subclass(cls, "JSONPointerError"):
                continue
            if cls in ("json.JSONDecodeError", "UnicodeDecodeError") and all("load_data" in o.func for o in origins):
                continue
            for o in origins:
                bad.append((cls, o))
        if not bad:
            rr.ok(fn.loc(), f"{fn.qualname}: escapes {sorted(c.split('.')[-1] for c in esc.function_escapes(fn))}")
        for cls, o in bad:
            ofn = ctx.repo.functions.get(o.func)
            f = rr.bad(ofn, None, f"{cls.split('.')[-1]} can escape {fn.qualname}: {o.text()}",
                       construct=f"{cls.split('.')[-1]} from {o.what}", file=o.file, qualname=o.func)
            f.line = o.line
    return rr


def r4_7(ctx: Ctx) -> RuleResult:
    """RFC 6901: a reference token names the member of that name.  The non-standard readings of a token (`#name`,
    the keys-selector prefix, the decimal spelling of an index as a key) are fall-backs: a value that is not the
    result of the plain lookup `getitem(obj, key)` is returned only where that lookup has failed, i.e. from inside
    an exception handler of the `try` that performs it."""
    from sa.flow import parent_map

    rr = RuleResult("R4.7", "non-standard readings of a token apply only after the plain lookup failed", floor=3)
    fn = ctx.repo.require_func("JSONPointer._getitem")
    params = [a.arg for a in fn.node.args.args]
    if len(params) < 3:  # noqa: PLR2004
        raise AnalysisError("R4.7: JSONPointer._getitem(self, obj, key) signature changed")
    obj, key = params[1], params[2]

    def is_plain(c: ast.AST) -> bool:
        return (isinstance(c, ast.Call) and callee_name(c) == "getitem" and len(c.args) == 2 and path_of(c.args[0]) == obj  # noqa: PLR2004
                and path_of(c.args[1]) == key) or (
            isinstance(c, ast.Subscript) and isinstance(c.ctx, ast.Load) and path_of(c.value) == obj and path_of(c.slice) == key)

    tries = [t for t in ast.walk(fn.node) if isinstance(t, ast.Try) and any(is_plain(c) for b in t.body for c in ast.walk(b))]
    if not tries:
        raise AnalysisError("R4.7: the plain lookup getitem(obj, key) inside a try was not found in JSONPointer._getitem")
    plain_try = tries[0]
    plain_vars = {t_.id for b in plain_try.body for a in ast.walk(b) if isinstance(a, ast.Assign) and is_plain(a.value)
                  for t_ in a.targets if isinstance(t_, ast.Name)}
    parents = parent_map(fn.node)
    in_handler = {id(n) for h in plain_try.handlers for n in ast.walk(h)}
    for r in [n for n in ast.walk(fn.node) if isinstance(n, ast.Return) and n.value is not None]:
        if is_plain(r.value) or (isinstance(r.value, ast.Name) and r.value.id in plain_vars):
            rr.ok(fn.loc(r), f"`{short(r)}` is the plain lookup")
        elif id(r) in in_handler:
            rr.ok(fn.loc(r), f"`{short(r)}`: a fall-back, after the plain lookup failed")
        else:
            rr.bad(fn, r, f"`{short(r)}` returns a non-standard reading of the token without the plain lookup having failed: a member whose "
                   "name is the token itself (e.g. `#a` next to `a`) can no longer be reached by its own pointer",
                   construct=f"_getitem: {short(r)} before the plain lookup")
    # before the plain lookup nothing depends on the token: a test on `key` that can leave the function ahead of the
    # lookup (`if key == "-": raise ...`) makes the member of that name unreachable
    _ = parents
    for st in fn.node.body:
        if st is plain_try:
            break
        if any(n is plain_try for n in ast.walk(st)):
            break
        leaves = any(isinstance(n, (ast.Raise, ast.Return)) for n in ast.walk(st))
        if isinstance(st, ast.If) and leaves and any(isinstance(n, ast.Name) and n.id == key for n in ast.walk(st.test)):
            rr.bad(fn, st, f"`if {short(st.test)}: ...` decides on the token before the plain lookup: a member whose name is that token "
                   "(e.g. `-` in an object) can no longer be reached", construct=f"_getitem: test on the token before the plain lookup ({short(st.test, 40)})")
    return rr


def r4_8(ctx: Ctx, rule: str = "R4.8", modules: tuple = ("jsonpath.pointer",), floor: int = 20) -> RuleResult:  # type: ignore[type-arg]
    """What a pointer resolves to depends on the pointer text, the options and the document alone: no function of
    the module stores into a container that outlives the call (a class-level or module-level table) under a key that
    leaves out one of the arguments it reads - a memo keyed by the pointer text alone hands `unicode_escape=False`
    the tokens decoded for `unicode_escape=True`."""
    from .common import shared_memo_stores

    rr = RuleResult(rule, "no result is remembered across calls under a key that leaves out an argument", floor=floor)
    for fn in ctx.repo.functions.values():
        if not any(fn.module.name == m or fn.module.name.startswith(m + ".") for m in modules):
            continue
        found = shared_memo_stores(ctx, fn)
        if not found:
            rr.ok(fn.loc(), f"{fn.qualname}: nothing stored in a table that outlives the call")
        for node, cont, missing in found:
            if missing:
                rr.bad(fn, node, f"{fn.qualname} stores into `{cont}`, which outlives the call, under a key that does not mention {missing}: a later call "
                       "with other values for them is answered with what was computed for these", construct=f"{cont}[...] keyed without {', '.join(missing)}")
            else:
                rr.bad(fn, node, f"{fn.qualname} writes into `{cont}`, a container of the class (or module) that every instance and every call shares, "
                       "without consulting it first: what one environment / call stores there, all the others read",
                       construct=f"{cont}: shared container written at run time")
    return rr


#: a document whose member names cover what RFC 6901 singles out - the two escaped characters alone, together and
#: next to the digits of their escapes, the characters of the RFC's own example, the empty name, names that look like
#: indices (canonical, leading zero, negative, exponent, `-`), blanks, non-ASCII in and beyond the BMP - nested in
#: both kinds of container, with a scalar of every kind as leaves (distinct values, so a wrong node is seen)
POINTER_DOC = {
    "foo": ["bar", "baz"], "": 0, "a/b": 1, "c%d": 2, "e^f": 3, "g|h": 4, "i\\j": 5, "k\"l": 6, " ": 7, "m~n": 8,
    "~": 9, "/": 10, "~1": 11, "~0": 12, "~01": 13, "/~/": 14, "0": "zero", "01": "leading", "-1": "minus", "-": "dash", "1e2": "exp",
    "\u00e9": 15, "\U0001f600": 16, "a b": 17, "#": 18, "$": 19,
    "arr": [20, [21, 22], {"x": [23], "": {"": 24}, "0": 25}, [], {}],
    "t": True, "f": False, "n": None, "num": 1.5, "s": "text", "obj": {"arr": [{"a/b~c": [26]}]},
    # digits that are not ASCII digits are name characters; characters a wrong 8-bit codec would move
    "1\uff10": 27, "1\u0662": 28, "price \u20ac": 29, "\u201cq\u201d": 30, "\u0085": 31, "\u00ff\u0100": 32,
    "big": [100, 101, 102, 103, 104, 105, 106, 107, 108, 109, 110, 111, 112],
    # names a decoder of backslash escapes would change, each next to the name it would become
    "\\u0041": 33, "A": 34, "C:\\new\\table": 35, "tail\\": 36,
}


def r4_9(ctx: Ctx) -> RuleResult:
    """The clause itself on a covering document, by abstract execution (rules/model.py, exceptions as they run) of
    `JSONPointer(text).resolve(doc)` and `.exists(doc)`: for every node of POINTER_DOC the pointer spelled from its
    member names and indices with `~0` / `~1` escaping resolves to that very node (the same object), with escape
    decoding off and - for pointers without a backslash - on; for every kind of pointer RFC 6901 section 4 cannot
    evaluate (missing member, index out of range / not canonical / `-`, any token applied to a scalar) resolution
    raises a pointer *resolution* error, returns the caller's default when one is given, never a value, and `exists`
    is false.  (Negative indices and `#`/`~`-prefixed tokens, documented extensions, are not sampled.)"""
    from sa.peval import UNKNOWN

    from .model import RAISES
    from .model import MObj
    from .model import Model
    from .model import _ConstructorRaises

    rr = RuleResult("R4.9", "every node's pointer resolves to that node; what RFC 6901 cannot evaluate is a resolution error", floor=120)
    cls = ctx.repo.require_class("jsonpath.pointer.JSONPointer")
    rfn = ctx.repo.find_method(cls, "resolve")
    efn = ctx.repo.find_method(cls, "exists")
    if rfn is None or efn is None:
        raise AnalysisError("R4.9: JSONPointer.resolve / exists not found")

    def esc(tok: str) -> str:
        return tok.replace("~", "~0").replace("/", "~1")

    nodes: List[Tuple[str, object]] = []

    def walk(v: object, text: str) -> None:
        nodes.append((text, v))
        if isinstance(v, dict):
            for k, x in v.items():
                walk(x, text + "/" + esc(k))
        elif isinstance(v, list):
            for i, x in enumerate(v):
                walk(x, text + "/" + str(i))

    walk(POINTER_DOC, "")

    def run(text: str, unicode_escape: bool, method: str, kwargs: Optional[Dict[str, object]] = None):  # type: ignore[no-untyped-def]
        model = Model(ctx, "R4.9")
        model.whole_bodies = model.auto_construct = model.exact_exceptions = True
        try:
            ptr = model.new("jsonpath.pointer.JSONPointer", text, unicode_escape=unicode_escape)
        except _ConstructorRaises:
            return "construct", model.last_raised
        r = model.call(ptr, method, [POINTER_DOC], kwargs or {})
        return r, model.last_raised

    def same(a: object, b: object) -> bool:
        return a is b if isinstance(b, (dict, list)) else (a == b and type(a) is type(b))

    for text, node in nodes:
        for ue in (False, True):
            if ue and "\\" in text:
                continue
            got, _c = run(text, ue, "resolve")
            label = f"JSONPointer({text!r}, unicode_escape={ue}).resolve(doc)"
            if got is UNKNOWN:
                raise AnalysisError(f"R4.9: {label} cannot be determined")
            if got == "construct" or got is RAISES:
                rr.bad(rfn, rfn.node, f"{label} raises {_c or 'an error'}: the pointer spelled from a node's own location does not reach it",
                       construct=f"resolve({text!r}, unicode_escape={ue}) raises")
            elif same(got, node):
                ex_, _c2 = run(text, ue, "exists")
                if ex_ is True:
                    rr.ok(rfn.loc(), f"{text!r} (unicode_escape={ue}) -> that node; exists")
                elif ex_ is UNKNOWN:
                    raise AnalysisError(f"R4.9: exists for {text!r} cannot be determined")
                else:
                    rr.bad(efn, efn.node, f"JSONPointer({text!r}).exists(doc) is {'an exception' if ex_ is RAISES else ex_!r} although resolve succeeds",
                           construct=f"exists({text!r}) disagrees with resolve")
            else:
                rr.bad(rfn, rfn.node, f"{label} yields {got!r:.60}, not the node at that location ({node!r:.60})",
                       construct=f"resolve({text!r}, unicode_escape={ue}) -> another node")
    invalid = ["/nope", "/foo/2", "/foo/-", "/foo/01", "/foo/1e0", "/foo/+1", "/foo/ 1", "/foo/x", "/foo/", "/arr/5", "/arr/1/2", "/arr/3/0", "/arr/4/a",
               "/t/0", "/f/x", "/n/y", "/num/0", "/s/0", "/s/length", "/0/0", "/arr/2/x/1", "/obj/arr/0/a~1b~0c/1", "/foo/0/0", "/a~1b/0", "/a", "/a/b", "/ /x",
               "/big/1\uff10", "/big/1\u0662", "/big/13", "/big/012", "/foo/\u0661"]
    res_err = "JSONPointerResolutionError"
    for text in invalid:
        got, c = run(text, False, "resolve")
        label = f"JSONPointer({text!r}).resolve(doc)"
        if got is UNKNOWN:
            raise AnalysisError(f"R4.9: {label} cannot be determined")
        if got == "construct":
            if c and ctx.repo.is_subclass(c, "JSONPointerError"):
                rr.ok(rfn.loc(), f"{text!r} is refused when parsed ({c.split('.')[-1]})")
            else:
                rr.bad(rfn, rfn.node, f"JSONPointer({text!r}) raises {c}: not a pointer error", construct=f"JSONPointer({text!r}) raises {c}")
            continue
        if got is not RAISES:
            rr.bad(rfn, rfn.node, f"{label} yields {got!r:.60}; RFC 6901 section 4 cannot evaluate this pointer on the document (it must be a resolution error)",
                   construct=f"resolve({text!r}) yields a value")
            continue
        if not c or not ctx.repo.is_subclass(c, res_err):
            rr.bad(rfn, rfn.node, f"{label} raises {c or 'an unknown class'}, which is not a pointer resolution error", construct=f"resolve({text!r}) raises {c}")
            continue
        ex_, _c3 = run(text, False, "exists")
        dflt, _c4 = run(text, False, "resolve", {"default": "<default>"})
        if ex_ is UNKNOWN or dflt is UNKNOWN:
            raise AnalysisError(f"R4.9: exists / resolve with a default for {text!r} cannot be determined")
        if ex_ is not False:
            rr.bad(efn, efn.node, f"JSONPointer({text!r}).exists(doc) is {'an exception (' + str(_c3) + ')' if ex_ is RAISES else repr(ex_)} although resolve fails",
                   construct=f"exists({text!r}) disagrees with resolve")
        elif dflt != "<default>":
            rr.bad(rfn, rfn.node, f"{label[:-1]}, default=...) gives {'an exception' if dflt is RAISES else repr(dflt)} instead of the caller's default",
                   construct=f"resolve({text!r}, default=) does not return the default")
        else:
            rr.ok(rfn.loc(), f"{text!r}: {c.split('.')[-1]}, exists False, the default is returned")
    return rr


def r4_10(ctx: Ctx) -> RuleResult:
    """The same clause for the pointer the library itself spells for a node: a match at every location of POINTER_DOC
    (parts typed as the selectors type them - str for a member name, int for an index) is asked for its `pointer()`,
    and that pointer must resolve, in the same document, to that very node - whatever characters the names contain
    (a match's parts are names taken from the document: nothing in them is an escape to decode)."""
    from sa.peval import UNKNOWN

    from .model import RAISES
    from .model import MObj
    from .model import Model

    rr = RuleResult("R4.10", "the pointer of a match at any node resolves to that node", floor=70)
    mcls = ctx.repo.require_class("jsonpath.match.JSONPathMatch")
    pfn = ctx.repo.find_method(mcls, "pointer")
    if pfn is None:
        raise AnalysisError("R4.10: JSONPathMatch.pointer not found")
    locations: List[Tuple[Tuple[object, ...], object]] = []

    def walk(v: object, parts: Tuple[object, ...]) -> None:
        locations.append((parts, v))
        if isinstance(v, dict):
            for k, x in v.items():
                walk(x, parts + (k,))
        elif isinstance(v, list):
            for i, x in enumerate(v):
                walk(x, parts + (i,))

    walk(POINTER_DOC, ())
    for parts, node in locations:
        where = "$" + "".join(f"[{p_!r}]" for p_ in parts)
        model = Model(ctx, "R4.10")
        model.whole_bodies = model.auto_construct = model.exact_exceptions = True
        match = model.new("jsonpath.match.JSONPathMatch", filter_context={}, obj=node, parent=None, path=where, parts=parts, root=POINTER_DOC)
        ptr = model.call(match, "pointer", [])
        if ptr is RAISES:
            rr.bad(pfn, pfn.node, f"the match at {where} has no pointer: pointer() raises {str(model.last_raised).split('.')[-1]}", construct=f"pointer() at {where} raises")
            continue
        if not isinstance(ptr, MObj):
            raise AnalysisError(f"R4.10: the pointer of the match at {where} cannot be determined")
        got = model.call(ptr, "resolve", [POINTER_DOC])
        text = ptr.fields.get("_s")
        if got is UNKNOWN:
            raise AnalysisError(f"R4.10: what the pointer {text!r} of the match at {where} resolves to cannot be determined")
        if got is RAISES:
            rr.bad(pfn, pfn.node, f"the pointer {text!r} of the match at {where} does not resolve in its own document: {str(model.last_raised).split('.')[-1]}",
                   construct=f"pointer of {where} does not resolve")
        elif (got is node) if isinstance(node, (dict, list)) else (got == node and type(got) is type(node)):
            rr.ok(pfn.loc(), f"{where} -> {text!r} -> that node")
        else:
            rr.bad(pfn, pfn.node, f"the pointer {text!r} of the match at {where} resolves to {got!r:.60}, another node", construct=f"pointer of {where} reaches another node")
    return rr


def r4_11(ctx: Ctx) -> RuleResult:
    """"With escape decoding disabled ... for every pointer" also through the command line: the `pointer` sub-command
    reads every option it declares (= R18.2 for that sub-command; `--no-unicode-escape` and `--uri-decode` must reach
    the resolver, or a pointer with a backslash is decoded although decoding was switched off)."""
    from .c18 import r18_2

    got = r18_2(ctx)
    rr = RuleResult("R4.11", "the `pointer` sub-command hands its decoding options to the resolver", floor=1)
    for inst in got.instances:
        if "pointer" in str(inst.get("what", "")) and inst.get("verdict") == "ok":
            rr.ok(str(inst.get("where", "")), str(inst.get("what", "")))
    for f in got.findings:
        if "pointer" in f.qualname or "pointer" in f.construct:
            nf = rr.bad(None, None, f.message, construct=f.construct, file=f.file, qualname=f.qualname)
            nf.line = f.line
    return rr


RULES = [r4_1, r4_2, r4_3, r4_4, r4_5, r4_6, r4_7, r4_8, r4_9, r4_10, r4_11]
