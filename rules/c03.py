"""C03 - every match location (path, parts, pointer, parent) identifies that node.

R3.1 location-step agreement at every match-construction site
R3.2 the canonical escape and the lexer's unescape are inverse tables
R3.3 quoted-string token shape (= R1.6)
R3.4 the pointer is built from the parts without re-parsing
"""

from __future__ import annotations

import ast
from typing import Dict
from typing import FrozenSet
from typing import List
from typing import Optional
from typing import Tuple

from sa.kinds import ARRAY
from sa.kinds import INT
from sa.kinds import OBJECT
from sa.kinds import STRING
from sa.kinds import path_of
from sa.loader import AnalysisError
from sa.loader import FuncInfo
from sa.loader import short
from sa.report import RuleResult

from . import Ctx
from .c01 import r1_6
from .c01 import site_kinds
from .common import callee_name
from .common import calls
from .common import class_of
from .common import kw
from .common import is_text_expr
from .common import resolved
from .common import outermost_replace_chains
from .common import selector_kind_flow


def _fstring_parts(e: ast.expr) -> Optional[List[object]]:
    """Flatten `P.path + f"[..]"` / f"{P.path}[..]" into a list of str / expr."""
    if isinstance(e, ast.BinOp) and isinstance(e.op, ast.Add):
        a, b = _fstring_parts(e.left), _fstring_parts(e.right)
        if a is None or b is None:
            return None
        return a + b
    if isinstance(e, ast.JoinedStr):
        out: List[object] = []
        for v in e.values:
            if isinstance(v, ast.Constant):
                out.append(str(v.value))
            elif isinstance(v, ast.FormattedValue):
                out.append(v.value)
        return out
    if isinstance(e, ast.Constant) and isinstance(e.value, str):
        return [e.value]
    if isinstance(e, (ast.Attribute, ast.Name, ast.Call)):
        return [e]
    return None


def appended_part(call: ast.Call, fn_node: Optional[ast.AST] = None) -> Optional[ast.expr]:
    """K in `parts=P.parts + (K,)`."""
    p = kw(call, "parts")
    if isinstance(p, ast.BinOp) and isinstance(p.op, ast.Add) and isinstance(p.right, ast.Tuple) and len(p.right.elts) == 1:
        return p.right.elts[0]
    return None


def step_of_path(call: ast.Call, parent: str, fn_node: Optional[ast.AST] = None) -> Optional[Tuple[str, object]]:
    """("quoted"|"bare"|"literal-quoted", step expr) of `path=` or None if malformed."""
    pe = kw(call, "path")
    if fn_node is not None:
        # pieces of text bound to locals (`suffix = f"[{i}]"`) are read through; other locals keep their names
        pe = resolved(fn_node, pe, only=is_text_expr)
    parts = _fstring_parts(pe) if pe is not None else None
    if not parts:
        return None
    head = parts[0]
    if not (isinstance(head, ast.AST) and path_of(head) == f"{parent}.path"):
        return None
    rest = parts[1:]
    # merge adjacent strings
    merged: List[object] = []
    for r in rest:
        if isinstance(r, str) and merged and isinstance(merged[-1], str):
            merged[-1] = merged[-1] + r
        else:
            merged.append(r)
    if len(merged) == 3 and merged[0] == "[" and merged[2] == "]" and isinstance(merged[1], ast.AST):
        step = merged[1]
        if isinstance(step, ast.Call) and callee_name(step) == "canonical_string" and step.args:
            return ("quoted", step.args[0])
        return ("bare", step)
    if len(merged) == 3 and merged[0] == "['" and merged[2] == "']" and isinstance(merged[1], ast.AST):
        return ("literal-quoted", merged[1])
    return None


def r3_1(ctx: Ctx) -> RuleResult:
    rr = RuleResult("R3.1", "path step, parts step and obj of a new match name the same child", floor=18)
    flows: Dict[str, tuple] = {}
    for fn, call, subj, ks, murky in site_kinds(ctx):
        if class_of(fn) == "KeysSelector":
            continue  # excluded by the property itself
        parent_e = kw(call, "parent")
        parent = path_of(parent_e) if parent_e is not None else None
        if parent is None or ks is None:
            raise AnalysisError(f"R3.1: cannot identify the parent at {fn.loc(call)}")
        problems: List[str] = []
        k = appended_part(call, fn.node)
        pk = kw(call, "parts")
        if k is None or not (isinstance(pk, ast.BinOp) and path_of(pk.left) == f"{parent}.parts"):
            problems.append(f"parts is not `{parent}.parts + (<step>,)`")
        step = step_of_path(call, parent, fn.node)
        if step is None:
            problems.append(f"path is not `{parent}.path` followed by one bracketed step")
        obj = kw(call, "obj")
        if isinstance(obj, ast.Await):
            obj = obj.value
        if not problems and k is not None and step is not None:
            form, sexpr = step
            ktxt, stxt = ast.unparse(k), ast.unparse(sexpr)  # type: ignore[arg-type]
            if ks <= {OBJECT}:
                if form == "quoted":
                    if stxt != ktxt:
                        problems.append(f"path step names `{stxt}` but parts step is `{ktxt}`")
                elif form == "literal-quoted":
                    # accepted only for a decimal integer spelling: str(int) needs no escaping
                    if not _is_str_of(fn, k, sexpr):  # type: ignore[arg-type]
                        problems.append(f"member name `{stxt}` is written without the canonical escape")
                else:
                    problems.append("an object member step must be written `[<canonical_string(name)>]`")
                if not _obj_taken_by(obj, subj, k, ctx, fn, call):
                    problems.append(f"obj `{short(obj)}` is not the member `{ktxt}` of {subj}")
            elif ks <= {ARRAY}:
                if form != "bare":
                    problems.append("an array element step must be the bare index")
                elif stxt != ktxt:
                    problems.append(f"path step is `{stxt}` but parts step is `{ktxt}`")
                if not _elem_taken_by(obj, subj, k, fn, call):
                    problems.append(f"obj `{short(obj)}` is not element `{ktxt}` of {subj}")
        # add_child follows
        if not problems:
            pass
        if problems:
            rr.bad(fn, call, "location of the new match is inconsistent: " + "; ".join(problems),
                   construct=f"match_class(parts={short(pk) if pk is not None else None}, path={short(kw(call, 'path')) if kw(call, 'path') is not None else None}, obj={short(obj) if obj is not None else None})")
        else:
            rr.ok(fn.loc(call), f"{fn.qualname}: step {short(k) if k is not None else '?'} consistent in path/parts/obj")
    return rr


def _is_str_of(fn: FuncInfo, k: ast.expr, shown: ast.expr) -> bool:
    """`k` is a field assigned `str(<shown>)` in __init__ and <shown> is an int field."""
    if not (isinstance(k, ast.Attribute) and path_of(k.value) == "self" and fn.cls is not None):
        return False
    init = fn.cls.methods.get("__init__")
    if init is None:
        return False
    # fields that are a constructor parameter stored as it is: self.index <- index
    origin = {}
    for n in ast.walk(init.node):
        if isinstance(n, ast.Assign) and isinstance(n.value, ast.Name):
            for t in n.targets:
                tp = path_of(t)
                if tp and tp.startswith("self."):
                    origin[tp] = n.value.id

    def param_of(e: ast.expr) -> Optional[str]:
        if isinstance(e, ast.Name):
            return e.id
        return origin.get(path_of(e) or "")

    for n in ast.walk(init.node):
        if isinstance(n, ast.Assign) and any(path_of(t) == f"self.{k.attr}" for t in n.targets):
            v = n.value
            if isinstance(v, ast.Call) and callee_name(v) == "str" and len(v.args) == 1 and param_of(v.args[0]) is not None \
                    and param_of(v.args[0]) == origin.get(path_of(shown) or ""):
                # the shown field must be an int parameter
                for a in init.node.args.args + init.node.args.kwonlyargs:
                    if a.arg == param_of(v.args[0]) and a.annotation is not None and ast.unparse(a.annotation) == "int":
                        return True
    return False


def _loop_binding(fn: FuncInfo, call: ast.Call) -> Optional[Tuple[str, str, str, str]]:
    """(kind, key var, value var, subject path) of the innermost enclosing loop
    over `X.items()` / `enumerate(X)` / zip(range(..), ...)."""
    from sa.flow import parent_map

    parents = parent_map(fn.node)
    cur: Optional[ast.AST] = call
    while cur is not None:
        cur = parents.get(id(cur))
        if isinstance(cur, (ast.For, ast.AsyncFor)) and isinstance(cur.target, ast.Tuple) and len(cur.target.elts) == 2:
            it = cur.iter
            kv, vv = path_of(cur.target.elts[0]), path_of(cur.target.elts[1])
            if isinstance(it, ast.Call) and callee_name(it) == "items":
                return ("items", kv or "", vv or "", path_of(it.func.value) or "")  # type: ignore[union-attr]
            if isinstance(it, ast.Call) and callee_name(it) == "enumerate" and it.args:
                return ("enumerate", kv or "", vv or "", path_of(it.args[0]) or "")
            if isinstance(it, ast.Call) and callee_name(it) == "zip" and len(it.args) == 2:
                return ("zip", kv or "", vv or "", ast.unparse(it))
    return None


def _obj_taken_by(obj: Optional[ast.expr], subj: Optional[str], k: ast.expr, ctx: Ctx, fn: FuncInfo, call: ast.Call) -> bool:
    if obj is None or subj is None:
        return False
    # getitem(subject, K)
    if isinstance(obj, ast.Call) and callee_name(obj) in ("getitem", "getitem_async") and len(obj.args) == 2:
        return path_of(obj.args[0]) == subj and ast.unparse(obj.args[1]) == ast.unparse(k)
    lb = _loop_binding(fn, call)
    if lb and lb[0] == "items":
        return lb[3] == subj and path_of(k) == lb[1] and path_of(obj) == lb[2]
    return False


def _elem_taken_by(obj: Optional[ast.expr], subj: Optional[str], k: ast.expr, fn: FuncInfo, call: ast.Call) -> bool:
    if obj is None or subj is None:
        return False
    lb = _loop_binding(fn, call)
    if lb and lb[0] == "enumerate":
        return lb[3] == subj and path_of(k) == lb[1] and path_of(obj) == lb[2]
    if lb and lb[0] == "zip":
        # zip(range(*slice.indices(len(subject))), getitem(subject, slice)): index i pairs with element i
        txt = lb[3]
        return path_of(k) == lb[1] and path_of(obj) == lb[2] and "indices(" in txt and subj in txt and "range(" in txt
    if isinstance(obj, ast.Call) and callee_name(obj) in ("getitem", "getitem_async") and len(obj.args) == 2 and path_of(obj.args[0]) == subj:
        # getitem(subject, self.index) with K = normalised index of self.index
        if ast.unparse(obj.args[1]) == ast.unparse(k):
            # fetching with the *normalised* index is only sound when that index has been
            # shown to be in range: a normaliser may return a value that is still negative
            # (or wrapped), and Python would happily index with it
            normalised = any(
                isinstance(n, ast.Assign) and path_of(n.targets[0]) == path_of(k) and isinstance(n.value, ast.Call)
                and callee_name(n.value) == "_normalized_index"
                for n in ast.walk(fn.node)
            )
            if not normalised:
                return True
            kp = path_of(k) or ""

            def refine(test: ast.expr, branch: bool) -> List[str]:
                if isinstance(test, ast.Compare) and len(test.ops) == 1 and path_of(test.left) == kp:
                    c = test.comparators[0]
                    if isinstance(c, ast.Constant) and c.value == 0:
                        if (isinstance(test.ops[0], ast.Lt) and not branch) or (isinstance(test.ops[0], ast.GtE) and branch):
                            return ["nonneg@" + kp]
                return []

            from .common import must_flow

            st = must_flow(fn.node, refine_events=refine).at.get(id(call)) or frozenset()
            return "nonneg@" + kp in st
        for n in ast.walk(fn.node):
            if isinstance(n, ast.Assign) and path_of(n.targets[0]) == path_of(k) and isinstance(n.value, ast.Call):
                argp = [path_of(a_) for a_ in n.value.args]
                if callee_name(n.value) == "_normalized_index" and subj in argp and set(argp) <= {subj, "self.index"}:
                    # (the normaliser may be a staticmethod that is handed the index as well)
                    return path_of(obj.args[1]) == "self.index"
    return False


def r3_2(ctx: Ctx) -> RuleResult:
    rr = RuleResult("R3.2", "canonical escape and lexer unescape are inverse tables", floor=2)
    ser = ctx.repo.require_func("jsonpath.serialize.canonical_string")
    dec = ctx.repo.require_func("Parser._decode_string_literal")
    enc_chain = [c for c in outermost_replace_chains(ser.node)]
    dec_chain = [c for c in outermost_replace_chains(dec.node)]
    if not enc_chain:
        # second accepted idiom of the writer: value.translate(<constant table>)
        tr = [c for c in calls(ser.node, "translate")]
        if len(tr) == 1 and tr[0].args:
            from sa.consteval import NotConst

            try:
                table = ctx.folder.eval_in(tr[0].args[0], ser.module)
            except NotConst as err:
                raise AnalysisError(f"R3.2: the escape table of canonical_string cannot be folded: {err}") from err
            if not isinstance(table, dict):
                raise AnalysisError("R3.2: canonical_string translates with something that is not a constant table")
            keys = {k if isinstance(k, int) else ord(k) for k in table}
            need = {ord("'"), ord("\\")} | set(range(0x20))
            missing = sorted(need - keys)
            named = {8: "\\b", 9: "\\t", 10: "\\n", 12: "\\f", 13: "\\r", 39: "\\'", 92: "\\\\"}
            wrong = []
            for k in sorted(keys & need):
                v = table.get(k, table.get(chr(k)))
                ok = v == named.get(k) or (isinstance(v, str) and v.lower() == f"\\u{k:04x}")
                if not ok:
                    wrong.append(k)
            if missing or wrong:
                shown = ", ".join(f"U+{c:04X}" for c in (missing + wrong)[:6])
                rr.bad(ser, tr[0], f"the canonical escape table leaves {len(missing)} character(s) unescaped and maps "
                       f"{len(wrong)} wrongly ({shown}...): a normalized path containing such a character is not "
                       "valid RFC 9535 text and does not parse back", construct=f"escape table lacks {shown}")
            else:
                rr.ok(ser.loc(tr[0]), "canonical_string escapes quote, backslash and every control character")
            return rr
    if len(enc_chain) != 1 or len(dec_chain) != 1:
        # neither idiom: the two functions are executed on covering samples instead (R3.11 is that check)
        rr2 = name_round_trip(ctx, "R3.2")
        rr2.title = rr.title + " (idiom not recognised: decided by abstract execution on covering samples)"
        return rr2
    ecall, ebase, epairs = enc_chain[0]
    dcall, dbase, dpairs = dec_chain[0]
    # writer: json.dumps(...)[1:-1] then swap \" -> " and ' -> \'
    dumps_ok = any(callee_name(c) == "dumps" for c in calls(ebase))
    loads_ok = any(callee_name(c) == "loads" for c in calls(dec.node))
    if dumps_ok and loads_ok:
        rr.ok(ser.loc(), "writer uses json.dumps, reader json.loads")
    else:
        rr.bad(ser, ser.node, "the canonical escape must be json.dumps on the writer side and json.loads on the reader side",
               construct="dumps/loads pair")
    want_enc = {('\\"', '"'), ("'", "\\'")}
    if set(epairs) == want_enc and set(dpairs) == {(b, a) for a, b in want_enc}:
        rr.ok(dec.loc(dcall), f"writer swaps {sorted(epairs)}, reader swaps back {sorted(dpairs)}")
    else:
        inv = {(b, a) for a, b in epairs}
        if set(dpairs) != inv:
            rr.bad(dec, dcall, f"the single-quote reader applies {dpairs}, which is not the inverse of the writer's "
                   f"{epairs}", construct=f"unescape {dpairs} vs escape {epairs}")
        else:
            rr.bad(ser, ecall, f"the canonical writer applies {epairs}; a single-quoted string needs "
                   f"{sorted(want_enc)}", construct=f"escape {epairs}")
    # the reader chain is applied on the single-quote branch only
    from .common import path_conditions

    guarded = any("SINGLE_QUOTE" in ast.unparse(t) and isinstance(t, ast.Compare) and isinstance(t.ops[0], ast.Eq) and b
                  for t, b in path_conditions(dec.node, dcall))
    if guarded:
        rr.ok(dec.loc(dcall), "unescape applied to single-quoted tokens only")
    else:
        rr.bad(dec, dcall, "the quote swap must apply to single-quoted tokens only", construct="single-quote branch")
    return rr


def r3_3(ctx: Ctx) -> RuleResult:
    return r1_6(ctx, "R3.3")


def r3_4(ctx: Ctx, rule: str = "R3.4") -> RuleResult:
    rr = RuleResult(rule, "the pointer of a match is built from its parts without re-parsing", floor=3)
    mp = ctx.repo.require_func("JSONPathMatch.pointer")
    fm_calls = [c for c in calls(mp.node, "from_match")]
    if fm_calls and all(len(c.args) == 1 and path_of(c.args[0]) == "self" for c in fm_calls):
        rr.ok(mp.loc(), "JSONPathMatch.pointer() -> JSONPointer.from_match(self)")
    else:
        rr.bad(mp, mp.node, "pointer() must be JSONPointer.from_match(self)", construct="pointer() delegation")
    fm = ctx.repo.require_func("JSONPointer.from_match")
    m = fm.node.args.args[1].arg
    ctors = [c for c in calls(fm.node) if callee_name(c) in ("cls", "JSONPointer")]
    if len(ctors) != 1:
        raise AnalysisError(f"{rule}: from_match does not construct exactly one pointer")
    c = ctors[0]
    probs = []
    if path_of(kw(c, "parts")) != f"{m}.parts" if kw(c, "parts") is not None else True:
        probs.append("parts= is not the match's parts")
    for flag in ("unicode_escape", "uri_decode"):
        v = kw(c, flag)
        if not (isinstance(v, ast.Constant) and v.value is False):
            probs.append(f"{flag} is not disabled")
    if probs:
        rr.bad(fm, c, "from_match must hand the match's parts over unchanged: " + "; ".join(probs), construct=short(c, 140))
    else:
        rr.ok(fm.loc(c), "from_match: parts=match.parts, decoding disabled")
    init = ctx.repo.require_func("JSONPointer.__init__")
    ok = False
    for n in ast.walk(init.node):
        if isinstance(n, ast.Assign) and any(path_of(t) == "self.parts" for t in n.targets):
            v = n.value
            if isinstance(v, ast.BoolOp) and isinstance(v.op, ast.Or) and path_of(v.values[0]) == "parts":
                ok = True
            elif isinstance(v, ast.IfExp) and path_of(v.test) == "parts" and path_of(v.body) == "parts":
                ok = True
    if not ok:
        # any other spelling: the constructor is executed abstractly with parts given; they must end up in
        # self.parts as they are and the parser must not have been consulted
        from sa.peval import UNKNOWN as _UNK

        from .model import Model as _Model

        parsed: list = []

        def hook(e, a, env, ex):  # type: ignore[no-untyped-def]
            if callee_name(e) == "_parse":
                parsed.append(e)
            return None

        given = ("a~b", 3, "c/d")
        try:
            mdl = _Model(ctx, rule, on_call=hook)
            mdl.whole_bodies = True
            obj = mdl.new("jsonpath.pointer.JSONPointer", pointer="/x", parts=given, unicode_escape=False, uri_decode=False)
            got = obj.fields.get("parts", _UNK)
        except AnalysisError:
            got = _UNK
        if got == given and not parsed:
            ok = True
        elif got is _UNK or not isinstance(got, tuple):
            raise AnalysisError(f"{rule}: what JSONPointer.__init__ stores in self.parts when parts are given cannot be determined")
    if ok:
        rr.ok(init.loc(), "JSONPointer.__init__: given parts are stored without parsing")
    else:
        rr.bad(init, init.node, "JSONPointer.__init__ must keep the given parts (`parts or self._parse(...)`)",
               construct="self.parts = parts or parse")
    return rr


def r3_5(ctx: Ctx) -> RuleResult:
    """The pointer of a match, printed and parsed again, addresses the same member: the reference-token encoder and
    decoder are inverse and applied in the RFC 6901 order (= R4.1)."""
    from .c04 import r4_1

    return r4_1(ctx, "R3.5")


def r3_6(ctx: Ctx, rule: str = "R3.6", owner: str = "jsonpath.pointer.JSONPointer") -> RuleResult:
    """`JSONPointer(str(p))` is p again only if parsing with the *default* options neither rewrites a token nor
    refuses one that `str()` can print.  Two constructs decide that: the default of `unicode_escape` (decoding
    `\\uXXXX` sequences that are part of a member name) and what `_index` does with a canonical integer token outside
    the index limits (refusing it makes a member with such a name unaddressable by its own printed pointer)."""
    from .common import path_conditions

    rr = RuleResult(rule, "the printed pointer parses back with the default options", floor=2)
    cls = ctx.repo.require_class("jsonpath.pointer.JSONPointer")
    ocls = ctx.repo.require_class(owner)
    init = ocls.methods.get("__init__")
    idx = cls.methods.get("_index")
    if init is None or idx is None:
        raise AnalysisError(f"{rule}: {ocls.name}.__init__ / JSONPointer._index not found")
    a = init.node.args
    names = [x.arg for x in a.kwonlyargs]
    dflt = a.kw_defaults[names.index("unicode_escape")] if "unicode_escape" in names else None
    if dflt is None:
        pos = [x.arg for x in a.args]
        if "unicode_escape" in pos and len(pos) - pos.index("unicode_escape") <= len(a.defaults):
            dflt = a.defaults[pos.index("unicode_escape") - (len(pos) - len(a.defaults))]
    if dflt is None:
        raise AnalysisError(f"{rule}: {ocls.name}.__init__ has no keyword `unicode_escape`")
    escapes_backslash = any(
        isinstance(c, ast.Call) and callee_name(c) == "replace" and c.args and isinstance(c.args[0], ast.Constant) and c.args[0].value == "\\"
        for m in (cls.methods.get("_encode"), cls.methods.get("__str__")) if m is not None for c in ast.walk(m.node))
    if isinstance(dflt, ast.Constant) and dflt.value is True and not escapes_backslash:
        rr.bad(init, init.node, f"{ocls.name}(...) decodes \\uXXXX sequences by default, and the printed pointer does not protect a "
               "backslash: the pointer of a member named `\\u0041` prints as `/\\u0041`, which parses to the member `A`",
               construct=f"{ocls.name}.__init__: unicode_escape defaults to True")
    else:
        rr.ok(init.loc(), "parsing with the default options decodes nothing that str() does not encode")
    refused = []
    for r in [n for n in ast.walk(idx.node) if isinstance(n, ast.Raise)]:
        conds = path_conditions(idx.node, r)
        if any("_int_index" in ast.unparse(t) for t, _b in conds):
            refused.append(r)
    if refused:
        rr.bad(idx, refused[0], "a canonical integer token outside min_int_index..max_int_index is refused when the pointer text is "
               "parsed: a member named `9007199254740993` has a pointer whose printed form raises JSONPointerIndexError",
               construct="JSONPointer._index: out-of-range integer tokens raise at parse time")
    else:
        rr.ok(idx.loc(), "integer tokens outside the index limits stay tokens")
    return rr


def r3_7(ctx: Ctx) -> RuleResult:
    """The location of an array element is its index counted from the start: the index selector normalises every
    negative index that is in range.  What it appends to `parts` (and prints in the path) depends on the written
    index and the array length only through their order, so it is folded on one representative of each order:
    index = -1 (inside), -len (the first element), -len-1 (outside), 0 and len-1."""
    from sa.peval import UNKNOWN
    from sa.peval import Explorer

    from .common import isinstance_classes
    from .model import MObj
    from .model import Model

    rr = RuleResult("R3.7", "the index selector normalises every in-range negative index", floor=6)
    cls = ctx.repo.require_class("jsonpath.selectors.IndexSelector")
    n = 3
    for mname in ("resolve", "resolve_async"):
        fn = cls.methods.get(mname)
        if fn is None:
            raise AnalysisError(f"R3.7: IndexSelector.{mname} not found")
        loops = [x for x in fn.node.body if isinstance(x, (ast.For, ast.AsyncFor))]
        if len(loops) != 1 or not isinstance(loops[0].target, ast.Name):
            raise AnalysisError(f"R3.7: IndexSelector.{mname} is no longer one loop over the input nodes")
        mvar = loops[0].target.id
        for index, want in ((-1, n - 1), (-n, 0), (0, 0), (n - 1, n - 1)):
            got: List[object] = []

            def hook(e: ast.Call, a: List[object], env: Dict[str, object], ex: Explorer) -> object:
                if callee_name(e) in ("match_class", "JSONPathMatch"):
                    got.append(ex.value(kw(e, "parts"), env) if kw(e, "parts") is not None else UNKNOWN)
                    return MObj(model, "JSONPathMatch", {})
                return None

            def oracle(t: ast.expr, env: dict) -> Optional[bool]:  # type: ignore[type-arg]
                ic = isinstance_classes(t)
                if ic is not None and ic[0] == f"{mvar}.obj":
                    names = set(ic[1])
                    if names <= {"str", "bytes", "Mapping", "dict", "MutableMapping"}:
                        return False
                    if names & {"Sequence", "list", "MutableSequence"}:
                        return True
                return None

            model = Model(ctx, "R3.7", hook, oracle)
            selector = MObj(model, "IndexSelector", {"index": index, "_as_key": str(index), "env": UNKNOWN})
            match = MObj(model, "JSONPathMatch", {"obj": tuple(range(n)), "parts": ("a",), "path": "$['a']", "root": UNKNOWN})
            ex = Explorer(ctx.folder, fn, oracle, on_call=lambda e, a, env: _model_call(model, hook, e, a, env, ex), enter_with=True)
            ex.block(list(loops[0].body), {fn.node.args.args[0].arg: selector, mvar: match})
            tails = [g[-1] if isinstance(g, tuple) and g else g for g in got]
            if tails and all(t_ == want and type(t_) is int for t_ in tails):
                rr.ok(fn.loc(), f"IndexSelector.{mname}: index {index} of a {n}-element array is located at {want}")
            elif not tails or any(t_ is UNKNOWN for t_ in tails):
                raise AnalysisError(f"R3.7: the part appended by IndexSelector.{mname} for index {index} cannot be determined ({tails})")
            else:
                rr.bad(fn, fn.node, f"IndexSelector.{mname} locates the element `[{index}]` of a {n}-element array at {tails[0]!r} instead of {want}: "
                       "the normalized path and the pointer of the match carry a negative index"
                       + (" for the index that equals minus the length" if index == -n else ""),
                       construct=f"IndexSelector.{mname}: index {index} of {n} -> {tails[0]!r}")
    return rr


def _model_call(model, hook, e, a, env, ex):  # type: ignore[no-untyped-def]
    """Call hook of an Explorer that runs a method body directly (not through Model.call)."""
    from sa.peval import RETURNS_NONE

    from .model import MObj

    r = hook(e, a, env, ex)
    if r is not None:
        return r
    if isinstance(e.func, ast.Attribute) and isinstance(e.func.value, (ast.Name, ast.Attribute)):
        base = ex.value(e.func.value, env)
        if isinstance(base, MObj):
            kws = {k.arg: ex.value(k.value, env) for k in e.keywords if k.arg}
            r2 = base.peval_call(e.func.attr, list(a), kws)
            return RETURNS_NONE if r2 is None else r2
    return None


def r3_8(ctx: Ctx) -> RuleResult:
    """The location parts of the matches the four selectors construct are those of the selected children (= R1.14: values and parts on covering small documents)."""
    from .c01 import r1_14

    return r1_14(ctx, "R3.8")


def r3_9(ctx: Ctx) -> RuleResult:
    """The pointer of a match, printed, is read back token by token: a token becomes an index only in canonical decimal
    form, otherwise the member named `-0` or `01` is addressed as element 0 / 1 (= R4.2)."""
    from .c04 import r4_2

    return r4_2(ctx, "R3.9")


def r3_10(ctx: Ctx) -> RuleResult:
    """A normalized path is a query: every character that `canonical_string` leaves unescaped inside the quotes must be
    accepted by the parser's name-selector check.  The serializer (json.dumps) escapes exactly the C0 controls, the
    quote and the backslash, so the parser's table of refused raw characters must hold C0 controls only."""
    rr = RuleResult("R3.10", "every character the printed path leaves raw is accepted in a name selector", floor=1)
    mod = ctx.repo.modules["jsonpath.parse"]
    try:
        chars = ctx.folder.global_value(mod, "INVALID_NAME_SELECTOR_CHARS")
    except NotConst as err:
        raise AnalysisError(f"R3.10: INVALID_NAME_SELECTOR_CHARS cannot be folded: {err}") from err
    if not isinstance(chars, (list, tuple)) or not all(isinstance(c, str) and len(c) == 1 for c in chars):
        raise AnalysisError("R3.10: INVALID_NAME_SELECTOR_CHARS is not a list of single characters")
    extra = sorted(c for c in chars if ord(c) >= 0x20)  # noqa: PLR2004
    where = f"{mod.relpath}"
    if extra:
        rr.bad(None, None, f"the parser refuses the raw character(s) {[hex(ord(c)) for c in extra]} in a quoted name although the path printer leaves "
               "them unescaped (RFC 9535 allows them): the path of a member whose name contains one is a syntax error",
               construct=f"INVALID_NAME_SELECTOR_CHARS includes {[hex(ord(c)) for c in extra]}", file=where, qualname="jsonpath.parse.INVALID_NAME_SELECTOR_CHARS")
    else:
        rr.ok(where, f"the {len(chars)} refused raw characters are C0 controls, which the printer escapes")
    return rr


#: member names that cover the escaping rules of a normalized path (RFC 9535 2.7): nothing to escape, each quote
#: alone and together, a backslash alone, before a quote and doubled, every named control, other controls, DEL,
#: non-ASCII in and beyond the BMP, a literal that looks like an escape, the empty name
NAME_SAMPLES = ("a", "a b", "it's", 'say "hi"', "'", '"', "\\", "back\\slash", 'x\\"y', "x\\'y", "\\\\", "\\'", '\\"', "tab\there", "\b\f\n\r\t",
                "\x00", "\x01\x1f", "\x0b", "\x7f", "\u00e9", "\U0001f600", "\\u0041", "\\n", "", "a'b\"c\\d\n", "$", "[0]", "/~01")


def rfc9535_normal_name(name: str) -> str:
    """The name selector of a normalized path for the member `name` (RFC 9535 2.7, `normal-single-quoted`)."""
    named = {"\b": "\\b", "\t": "\\t", "\n": "\\n", "\f": "\\f", "\r": "\\r", "'": "\\'", "\\": "\\\\"}
    out = []
    for ch in name:
        if ch in named:
            out.append(named[ch])
        elif ord(ch) < 0x20:  # noqa: PLR2004
            out.append(f"\\u{ord(ch):04x}")
        else:
            out.append(ch)
    return "'" + "".join(out) + "'"


def name_round_trip(ctx: Ctx, rule: str) -> RuleResult:
    """The writer of quoted names (`canonical_string`) and the reader (the lexer's string rule followed by
    `Parser._decode_string_literal`) are executed abstractly on member names that cover the escaping rules: the
    text written is the RFC 9535 normalized form, the lexer reads it back as one single-quoted string token and the
    decoder returns the name that was written.  This is the behaviour itself on the covering samples, whatever the
    spelling of the two functions (replace chains, translate tables, a regular expression with a callback)."""
    from sa.peval import UNKNOWN as _UNK

    from .model import RAISES as _RAISES
    from .model import MObj as _MObj
    from .model import Model as _Model

    rr = RuleResult(rule, "quoted names: the canonical writer and the lexer/decoder are inverse on covering samples, and the text is RFC 9535's", floor=len(NAME_SAMPLES))
    ser = ctx.repo.require_func("jsonpath.serialize.canonical_string")
    dec = ctx.repo.require_func("Parser._decode_string_literal")
    for name in NAME_SAMPLES:
        mdl = _Model(ctx, rule)
        mdl.whole_bodies = True
        text = mdl.call_function(ser, [name])
        if text is _RAISES:
            rr.bad(ser, ser.node, f"canonical_string raises for the member name {name!r}", construct=f"canonical_string({name!r}) raises")
            continue
        if text is _UNK or not isinstance(text, str):
            raise AnalysisError(f"{rule}: the text canonical_string writes for {name!r} cannot be determined")
        want = rfc9535_normal_name(name)
        if text != want:
            rr.bad(ser, ser.node, f"canonical_string writes the member name {name!r} as {text} ; the normalized path of RFC 9535 2.7 spells it {want}",
                   construct=f"canonical_string({name!r}) == {text}")
            continue
        toks = ctx.lexer.tokens_of(text)
        if not (len(toks) == 1 and "SINGLE_QUOTE" in toks[0][1] and toks[0][2] == text[1:-1]):
            rr.bad(ser, ser.node, f"the text {text} written for the member name {name!r} is lexed as {[(k, v) for _r, k, v in toks]}, not as one single-quoted "
                   "string with that content: the normalized path does not parse back", construct=f"lexing of {text}")
            continue
        env_obj = _MObj(mdl, "jsonpath.env.JSONPathEnvironment", {"unicode_escape": True})
        parser = _MObj(mdl, "jsonpath.parse.Parser", {"env": env_obj})
        token = _MObj(mdl, "jsonpath.token.Token", {"kind": toks[0][1], "value": toks[0][2], "index": 0, "path": text})
        back = mdl.call(parser, "_decode_string_literal", [token])
        if back is _RAISES:
            rr.bad(dec, dec.node, f"_decode_string_literal refuses the text {text} that canonical_string writes for the member name {name!r}",
                   construct=f"decode of {text} raises")
        elif back is _UNK or not isinstance(back, str):
            raise AnalysisError(f"{rule}: what _decode_string_literal returns for {text} cannot be determined")
        elif back != name:
            rr.bad(dec, dec.node, f"the member name {name!r} is written as {text} and read back as {back!r}: the path of a match selects another member",
                   construct=f"{name!r} -> {text} -> {back!r}")
        else:
            # ... and as a whole bracketed selection through the parser itself
            from .model import parse_bracketed

            sel = parse_bracketed(ctx, rule, "[" + text + "]")
            psl = ctx.repo.require_func("Parser.parse_selector_list")
            if sel is None:
                raise AnalysisError(f"{rule}: the abstract execution of parse_selector_list on [{text}] cannot be followed")
            if sel is _RAISES:
                rr.bad(psl, psl.node, f"the selection [{text}] that the library writes for the member name {name!r} is refused by its own parser: "
                       "the normalized path of a match cannot be used as a query", construct=f"parse of [{text}] raises")
            elif not (len(sel) == 1 and sel[0][0] == "PropertySelector" and sel[0][1].get("name") == name):  # type: ignore[arg-type,index]
                rr.bad(psl, psl.node, f"the selection [{text}] written for the member name {name!r} is parsed into {sel}: the normalized path selects "
                       "something else", construct=f"parse of [{text}]")
            else:
                rr.ok(ser.loc(), f"{name!r} -> {text} -> {back!r} (token), name selector {name!r} (parser)")
    return rr


def r3_11(ctx: Ctx) -> RuleResult:
    return name_round_trip(ctx, "R3.11")


RULES = [r3_1, r3_2, r3_3, r3_4, r3_5, r3_6, r3_7, r3_8, r3_9, r3_10, r3_11]
