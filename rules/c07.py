"""C07 - compile-time gate: ill-typed or out-of-range queries are refused.

R7.1 test positions are guarded (value-typed function results and bare
     literals rejected at the filter root, under `!`, on both sides of `&&`/`||`
     and as a logical-typed function argument)
R7.2 comparability checked on both operands for every comparison operator
R7.3 singular-query classification admits only name and index selectors
R7.4 signature check: arity first, every parameter type handled, unknown
     functions refused
R7.5 index and all three slice bounds are range-checked against the
     environment's limits before the selector exists
R7.6 leading zero and empty list are refused
"""

from __future__ import annotations

import ast
from typing import Dict
from typing import List
from typing import Optional
from typing import Set
from typing import Tuple

from sa import regexast
from sa.consteval import EnumMember
from sa.consteval import NotConst
from sa.kinds import path_of
from sa.loader import AnalysisError
from sa.loader import FuncInfo
from sa.loader import short
from sa.report import RuleResult

from . import Ctx
from .common import callee_name
from .common import calls
from .common import isinstance_classes
from .common import kw
from .common import must_flow
from .common import path_conditions

RFC_COMPARISONS = ("==", "!=", "<", "<=", ">", ">=")
LOGICAL_OPS = ("&&", "||")


def _fold_member(ctx: Ctx, fn: FuncInfo, e: ast.expr):  # type: ignore[no-untyped-def]
    from sa.consteval import Instance
    from sa.consteval import Scope

    loc = {"self": Instance(fn.cls)} if fn.cls is not None else {}
    return ctx.folder.eval(e, Scope(ctx.folder, fn.module, fn.cls, loc))


def _raise_class(ctx: Ctx, fn: FuncInfo, r: ast.Raise) -> Optional[str]:
    if r.exc is None:
        return None
    n = ctx.escapes.exc_name(fn, r.exc)
    return n.split(".")[-1] if n else None


def _operand_name(helper: FuncInfo, index: int, skip: int) -> Optional[str]:
    """The name the `index`-th positional argument of a call has inside `helper`: the parameter, or - for a helper
    that takes the operands as `*operands` and checks them in a loop - the loop variable over them."""
    a = helper.node.args
    params = [x.arg for x in a.args][skip:]
    if index < len(params):
        return params[index]
    if a.vararg is not None:
        loops = [n for n in ast.walk(helper.node) if isinstance(n, ast.For) and path_of(n.iter) == a.vararg.arg and isinstance(n.target, ast.Name)
                 and not any(isinstance(x, ast.Break) for x in ast.walk(n))]
        if len(loops) == 1:
            return loops[0].target.id
    return None


def _guards_for(ctx: Ctx, fn: FuncInfo, operand: str, operators: Optional[Tuple[str, ...]], depth: int = 0) -> Set[str]:
    """Which of {"value", "literal"} guards does `fn` apply to the expression held
    in variable `operand` (for *all* of the given operator spellings, if any)?"""
    found: Set[str] = set()
    for r in [n for n in ast.walk(fn.node) if isinstance(n, ast.Raise)]:
        cls = _raise_class(ctx, fn, r)
        conds = path_conditions(fn.node, r)
        inst_pos: List[List[str]] = []
        other_ok = True
        has_value_test = False
        for test, branch in conds:
            ic = isinstance_classes(test)
            if ic is not None:
                subj, names = ic
                if subj == operand:
                    if branch:
                        inst_pos.append(names)
                    else:
                        other_ok = False
                continue
            txt = ast.unparse(test)
            # operator (not) in self.<CONST SET>: must hold for every given operator
            if isinstance(test, ast.Compare) and len(test.ops) == 1 and isinstance(test.ops[0], (ast.In, ast.NotIn)) and isinstance(test.left, ast.Name):
                if operators is None:
                    other_ok = False
                    continue
                try:
                    members = _fold_member(ctx, fn, test.comparators[0])
                except NotConst:
                    other_ok = False
                    continue
                for op in operators:
                    holds = (op in members) if isinstance(test.ops[0], ast.In) else (op not in members)
                    if holds != branch:
                        other_ok = False
                continue
            if "return_type" in txt and "VALUE" in txt and isinstance(test, ast.Compare):
                is_eq = isinstance(test.ops[0], ast.Eq)
                if is_eq == branch:
                    has_value_test = True
                else:
                    other_ok = False
                continue
            ic2 = isinstance_classes(test)
            if txt in ("self.env.well_typed", "env.well_typed") or isinstance(test, ast.Name) or (ic2 is not None and ic2[1] == ["FilterFunction"]):
                # (the type checks are on; the function was found in the environment; it is a type-aware function)
                if not branch:
                    other_ok = False
                continue
            other_ok = False
        if not other_ok:
            continue
        flat = [n for names in inst_pos for n in names]
        if cls == "JSONPathSyntaxError" and inst_pos and {"Literal", "Nil"} <= set(flat):
            found.add("literal")
        if cls == "JSONPathTypeError" and "FunctionExtension" in flat and has_value_test:
            found.add("value")
    # helpers called with the operand as an argument
    if depth < 2:
        for c in calls(fn.node):
            if isinstance(c.func, ast.Attribute) and path_of(c.func.value) == "self" and fn.cls is not None:
                helper = ctx.repo.find_method(fn.cls, c.func.attr)
                skip = 1
            elif isinstance(c.func, ast.Name):
                # a plain function of the package (the check may live next to the node classes)
                site = ctx.callgraph.by_node.get(id(c))
                cands = [x for x in (site.callees if site is not None else []) if x.cls is None and x.module.name.startswith("jsonpath")]
                helper = cands[0] if len(cands) == 1 else None
                skip = 0
            else:
                continue
            if helper is None or helper is fn or helper.name.startswith("parse_"):
                continue
            for i, a in enumerate(c.args):
                if path_of(a) == operand:
                    pname_ = _operand_name(helper, i, skip)
                    params = {i: pname_}
                    if pname_ is not None:
                        conds = path_conditions(fn.node, c)
                        applies = True
                        for test, branch in conds:
                            if isinstance(test, ast.Compare) and len(test.ops) == 1 and isinstance(test.ops[0], (ast.In, ast.NotIn)) and isinstance(test.left, ast.Name) and operators is not None:
                                try:
                                    members = _fold_member(ctx, fn, test.comparators[0])
                                except NotConst:
                                    applies = False
                                    continue
                                for op in operators:
                                    holds = (op in members) if isinstance(test.ops[0], ast.In) else (op not in members)
                                    if holds != branch:
                                        applies = False
                            elif ast.unparse(test) == "self.env.well_typed" and branch:
                                continue
                            else:
                                applies = False
                        if applies:
                            got = _guards_for(ctx, helper, params[i], None, depth + 1)
                            # a helper guarded by `self.env.well_typed` only contributes the type guard
                            found |= got
    return found


def r7_1(ctx: Ctx) -> RuleResult:
    rr = RuleResult("R7.1", "value-typed results and bare literals are rejected at every test position", floor=4)
    parser = ctx.repo.require_class("Parser")
    producers: List[Tuple[str, str, Optional[Tuple[str, ...]], str]] = []
    # filter root
    pf = parser.methods.get("parse_filter")
    if pf is None:
        raise AnalysisError("Parser.parse_filter not found")
    ctor = [c for c in calls(pf.node, "BooleanExpression")]
    if len(ctor) != 1 or not ctor[0].args or path_of(ctor[0].args[0]) is None:
        raise AnalysisError("R7.1: parse_filter does not wrap a variable in BooleanExpression")
    producers.append(("parse_filter", path_of(ctor[0].args[0]) or "", None, "the filter root"))
    # operand of `!`
    pp = parser.methods.get("parse_prefix_expression")
    if pp is None:
        raise AnalysisError("Parser.parse_prefix_expression not found")
    pc = [c for c in calls(pp.node, "PrefixExpression")]
    if len(pc) != 1:
        raise AnalysisError("R7.1: parse_prefix_expression does not build exactly one PrefixExpression")
    right = kw(pc[0], "right") or (pc[0].args[1] if len(pc[0].args) > 1 else None)
    if right is not None and path_of(right) is not None:
        producers.append(("parse_prefix_expression", path_of(right) or "", None, "the operand of `!`"))
    else:
        producers.append(("parse_prefix_expression", "<inline>", None, "the operand of `!`"))
    # both operands of a logical infix expression
    pi = parser.methods.get("parse_infix_expression")
    if pi is None:
        raise AnalysisError("Parser.parse_infix_expression not found")
    ic = [c for c in calls(pi.node, "InfixExpression")]
    if len(ic) != 1 or len(ic[0].args) != 3:
        raise AnalysisError("R7.1: parse_infix_expression does not build InfixExpression(left, operator, right)")
    for idx, side in ((0, "left"), (2, "right")):
        producers.append(("parse_infix_expression", path_of(ic[0].args[idx]) or "", LOGICAL_OPS, f"the {side} operand of && / ||"))
    for fname, operand, ops, what in producers:
        fn = parser.methods[fname]
        if operand == "<inline>":
            rr.bad(fn, fn.node, f"{what} is parsed inline and never checked: a value-typed function result or "
                   "a bare literal is accepted as a test (e.g. `$[?!length(@.a)]`, `$[?!true]`)",
                   construct=f"{fname}: {what} unchecked")
            continue
        got = _guards_for(ctx, fn, operand, ops)
        missing = {"value", "literal"} - got
        if not missing:
            rr.ok(fn.loc(), f"{fname}: {what} (`{operand}`) is checked for value-typed results and bare literals")
        else:
            names = {"value": "a value-typed function result (`length(@.a)`)", "literal": "a bare literal (`true`, `1`)"}
            rr.bad(fn, fn.node, f"{what} may be " + " or ".join(names[m] for m in sorted(missing)) +
                   " without being rejected: RFC 9535 requires such an expression to be compared",
                   construct=f"{fname}: {what} lacks {sorted(missing)} guard")
    # grouped expressions are transparent
    pg = parser.methods.get("parse_grouped_expression")
    if pg is None:
        raise AnalysisError("Parser.parse_grouped_expression not found")
    rets = [r for r in ast.walk(pg.node) if isinstance(r, ast.Return)]
    if rets and all(isinstance(r.value, ast.Name) for r in rets):
        rr.ok(pg.loc(), "parenthesised expressions are returned to the caller unchanged")
    else:
        rr.bad(pg, pg.node, "a parenthesised expression must be returned as the inner node so that the caller's "
               "checks apply to it", construct="grouped expression transparent")
    # LOGICAL parameter: partial evaluation of the per-argument check with the parameter type LOGICAL and
    # the argument an instance of each node class that is a literal or a value-typed function call
    import copy as _copy

    from sa.loader import FuncInfo as _FI
    from sa.peval import Explorer

    cw = ctx.repo.require_func("JSONPathEnvironment.check_well_typedness")
    loops = [n for n in cw.node.body if isinstance(n, ast.For)]
    if len(loops) != 1:
        raise AnalysisError("R7.1: check_well_typedness is no longer one loop over the parameters")
    shell = _copy.copy(cw.node)
    shell.body = loops[0].body
    per_arg = _FI(qualname=cw.qualname, name=cw.name, node=shell, module=cw.module, cls=cw.cls)
    et = ctx.repo.require_class("ExpressionType")
    must_refuse = ["BooleanLiteral", "StringLiteral", "IntegerLiteral", "FloatLiteral", "RegexLiteral", "Nil", "Undefined",
                   "ListLiteral", "FunctionExtension", "CurrentKey"]
    accepted: List[str] = []
    decided = 0
    for k in must_refuse:
        kcls = ctx.repo.require_class(f"jsonpath.filter.{k}")

        def oracle(t: ast.expr, env: dict, kcls=kcls) -> Optional[bool]:  # type: ignore[no-untyped-def,type-arg]
            icl = isinstance_classes(t)
            if icl is not None and not icl[0].startswith("self"):
                try:
                    classes = ctx.folder.eval_in(t.args[1], cw.module, cw.cls)  # type: ignore[attr-defined]
                except NotConst:
                    return None
                classes = classes if isinstance(classes, tuple) else (classes,)
                names = [getattr(getattr(c, "cls", None), "qualname", None) for c in classes]
                if any(n is None for n in names):
                    return None
                return any(ctx.repo.is_subclass(kcls.qualname, n) for n in names)
            if isinstance(t, ast.Compare) and len(t.ops) == 1 and isinstance(t.ops[0], (ast.Eq, ast.NotEq)):
                for side, other in ((t.comparators[0], t.left), (t.left, t.comparators[0])):
                    try:
                        m = ctx.folder.eval_in(side, cw.module, cw.cls)
                    except NotConst:
                        continue
                    if isinstance(m, EnumMember) and m.cls is et:
                        if isinstance(other, ast.Call) and callee_name(other) == "_function_return_type":
                            return (m.name == "VALUE") == isinstance(t.ops[0], ast.Eq)
                        return (m.name == "LOGICAL") == isinstance(t.ops[0], ast.Eq)
            return None

        ex = Explorer(ctx.folder, per_arg, oracle)
        outs = ex.run({})
        decided += 1
        if any(kind != "raise" for kind, _n, _v in outs) or not outs:
            accepted.append(k)
    if not accepted:
        rr.ok(cw.loc(), f"a LOGICAL parameter refuses all of {must_refuse} (partial evaluation, {decided} node classes)")
    else:
        rr.bad(cw, cw.node, f"the LOGICAL parameter check must refuse literals and value-typed function results; it accepts {accepted}",
               construct="LOGICAL parameter allow-list")
    return rr


def r7_2(ctx: Ctx) -> RuleResult:
    rr = RuleResult("R7.2", "both operands of every comparison are checked for comparability", floor=4)
    parser = ctx.repo.require_class("Parser")
    cmp_ops = ctx.folder.class_attr(parser, "COMPARISON_OPERATORS")
    where = f"{parser.module.relpath}:{parser.node.lineno}"
    missing = [o for o in RFC_COMPARISONS if o not in cmp_ops]
    if missing:
        rr.bad(None, None, f"COMPARISON_OPERATORS lacks {missing}: those comparisons accept non-singular queries",
               construct=f"COMPARISON_OPERATORS missing {missing}", file=parser.module.relpath, qualname=parser.qualname)
    else:
        rr.ok(where, "COMPARISON_OPERATORS contains the six RFC comparison operators")
    # a documented second spelling of a comparison operator gets the same comparability checks as the operator
    from .c13 import OPERATOR_ALIASES

    for alias, std in OPERATOR_ALIASES:
        if (alias in cmp_ops) == (std in cmp_ops):
            rr.ok(where, f"`{alias}` is checked for comparability like `{std}`")
        else:
            rr.bad(None, None, f"`{std}` is in Parser.COMPARISON_OPERATORS but its documented spelling `{alias}` is not: a non-singular query or a "
                   f"logical-typed function result compiles as an operand of `{alias}`", construct=f"COMPARISON_OPERATORS: {alias} vs {std}",
                   file=parser.module.relpath, qualname=parser.qualname + ".COMPARISON_OPERATORS")
    pi = parser.methods["parse_infix_expression"]
    ic = [c for c in calls(pi.node, "InfixExpression")]
    left, right = path_of(ic[0].args[0]), path_of(ic[0].args[2])
    checked: Dict[str, FuncInfo] = {}
    operand_names: Dict[str, str] = {}
    for c in calls(pi.node):
        if isinstance(c.func, ast.Attribute) and path_of(c.func.value) == "self" and c.args:
            helper = ctx.repo.find_method(parser, c.func.attr)
            if helper is None or helper.name.startswith("parse_"):
                continue
            conds = path_conditions(pi.node, c)
            under_cmp = any("COMPARISON_OPERATORS" in ast.unparse(t) and b for t, b in conds)
            for i_, a_ in enumerate(c.args):
                side_ = path_of(a_)
                if under_cmp and side_ in (left, right):
                    pn_ = _operand_name(helper, i_, 1)
                    if pn_ is not None:
                        checked[side_ or ""] = helper
                        operand_names[side_ or ""] = pn_
    for side in (left, right):
        if side in checked:
            rr.ok(pi.loc(), f"operand `{side}` checked by {checked[side].name}() for comparison operators")
        else:
            rr.bad(pi, pi.node, f"operand `{side}` of a comparison is not checked for comparability",
                   construct=f"comparability of {side}")
    helpers = {(h_, operand_names[s_]) for s_, h_ in checked.items()}
    for h, pname in sorted(helpers, key=lambda t: (t[0].qualname, t[1])):
        from .common import follow_delegation

        h, param = follow_delegation(ctx, h, pname)
        raises = [(r, path_conditions(h.node, r)) for r in ast.walk(h.node) if isinstance(r, ast.Raise)]
        nonsing = any(
            any(isinstance_classes(t) == (param, ["Path"]) and b for t, b in conds)
            and any("singular_query" in ast.unparse(t) and not b for t, b in conds)
            for r, conds in raises
        )
        logical = any(
            any((isinstance_classes(t) or ("", []))[1] == ["FunctionExtension"] and b for t, b in conds)
            and any("return_type" in ast.unparse(t) and "VALUE" in ast.unparse(t)
                    and isinstance(t, ast.Compare) and isinstance(t.ops[0], ast.Eq) and not b for t, b in conds)
            for r, conds in raises
        )
        if not logical:
            # the test may sit in a predicate of the class: `isinstance(x, FunctionExtension) and self._returns_non_value(x)`
            def _non_value_predicate(t: ast.expr) -> bool:
                if not (isinstance(t, ast.Call) and isinstance(t.func, ast.Attribute) and path_of(t.func.value) == "self" and len(t.args) == 1
                        and path_of(t.args[0]) == param):
                    return False
                pred = ctx.repo.find_method(parser, t.func.attr)
                if pred is None:
                    return False
                rets = [r_.value for r_ in ast.walk(pred.node) if isinstance(r_, ast.Return) and r_.value is not None]
                yes = [v for v in rets if isinstance(v, ast.Compare) and len(v.ops) == 1 and isinstance(v.ops[0], ast.NotEq)
                       and "return_type" in ast.unparse(v) and "VALUE" in ast.unparse(v)]
                rest = [v for v in rets if v not in yes]
                return bool(yes) and all(isinstance(v, ast.Constant) and v.value is False for v in rest)

            logical = any(
                any((isinstance_classes(t) or ("", []))[1] == ["FunctionExtension"] and b for t, b in conds)
                and any(_non_value_predicate(t) and b for t, b in conds)
                for r, conds in raises
            )
        if nonsing:
            rr.ok(h.loc(), f"{h.name}: raises for a non-singular query")
        else:
            rr.bad(h, h.node, "non-singular queries must be refused as comparison operands", construct="non-singular refusal")
        if logical:
            rr.ok(h.loc(), f"{h.name}: raises for a function whose result is not a value")
        else:
            rr.bad(h, h.node, "functions whose result is not ValueType must be refused as comparison operands",
                   construct="non-value function refusal")
    return rr


def r7_3(ctx: Ctx) -> RuleResult:
    """Singular queries (RFC 9535 2.3.5.1): only name and index selectors, a bracketed list counting only when it
    holds exactly one of them.  The per-selector body of `singular_query` is partially evaluated for every selector
    class, and for bracketed lists of one and of two items of every class: it must go on to the next selector for
    the allowed shapes and return False for all others."""
    import copy as _copy

    from sa.loader import FuncInfo as _FI
    from sa.peval import Explorer

    rr = RuleResult("R7.3", "singular queries consist of name and index selectors only", floor=2)
    fn = ctx.repo.require_func("JSONPath.singular_query")
    loops = [n for n in fn.node.body if isinstance(n, ast.For)]
    if len(loops) != 1 or path_of(loops[0].iter) != "self.selectors":
        raise AnalysisError("R7.3: singular_query is no longer one loop over self.selectors")
    loop = loops[0]
    var = path_of(loop.target)
    allowed = {"PropertySelector", "IndexSelector"}
    base = ctx.repo.require_class("jsonpath.selectors.JSONPathSelector")
    kinds = sorted(c.name for c in ctx.repo.subclasses(base, strict=True))
    if "ListSelector" not in kinds or not allowed <= set(kinds):
        raise AnalysisError("R7.3: selector classes not found")
    shell = _copy.copy(fn.node)
    shell.body = loop.body
    per_sel = _FI(qualname=fn.qualname, name=fn.name, node=shell, module=fn.module, cls=fn.cls)

    def subclass(k: str, names: List[str]) -> bool:
        kc = ctx.repo.require_class(f"jsonpath.selectors.{k}")
        return any(ctx.repo.get_class(n) is not None and ctx.repo.is_subclass(kc.qualname, ctx.repo.get_class(n).qualname) for n in names)  # type: ignore[union-attr]

    def run(k: str, n_items: int, k2: Optional[str]) -> str:
        item_vars: Set[str] = set()
        for g in ast.walk(shell):
            if isinstance(g, ast.comprehension) and (path_of(g.iter) or "").startswith(f"{var}.items"):
                item_vars |= {x.id for x in ast.walk(g.target) if isinstance(x, ast.Name)}

        def oracle(t: ast.expr, env: dict) -> Optional[bool]:  # type: ignore[type-arg]
            ic = isinstance_classes(t)
            if ic is not None:
                subj = ic[0]
                if subj == var:
                    return subclass(k, ic[1])
                if k2 is not None and (subj.startswith(f"{var}.items[") or subj in item_vars):
                    return subclass(k2, ic[1])
                return None
            if isinstance(t, ast.Compare) and len(t.ops) == 1 and isinstance(t.left, ast.Call) and callee_name(t.left) == "len" \
                    and path_of(t.left.args[0]) == f"{var}.items" and isinstance(t.comparators[0], ast.Constant):
                c = t.comparators[0].value
                return {ast.Eq: n_items == c, ast.NotEq: n_items != c, ast.Gt: n_items > c, ast.GtE: n_items >= c,
                        ast.Lt: n_items < c, ast.LtE: n_items <= c}.get(type(t.ops[0]))
            if isinstance(t, ast.Call) and callee_name(t) in ("all", "any") and len(t.args) == 1 and isinstance(t.args[0], (ast.GeneratorExp, ast.ListComp)) \
                    and k2 is not None:
                g = t.args[0].generators[0]
                if (path_of(g.iter) or "") == f"{var}.items" and not g.ifs:
                    return oracle(t.args[0].elt, env)  # every item has the same class
            return None

        ex = Explorer(ctx.folder, per_sel, oracle)
        outs = ex.run({})
        goes_on = [o for o in outs if o[0] in ("continue", "fall")]
        refuses = [o for o in outs if o[0] == "return" and o[2] is False]
        other = [o for o in outs if o not in goes_on and o not in refuses]
        if other or (goes_on and refuses) or not outs:
            return "undecided"
        return "accept" if goes_on else "refuse"

    cases = [(k, 0, None) for k in kinds if k != "ListSelector"]
    cases += [("ListSelector", n, k2) for n in (1, 2) for k2 in kinds if k2 != "ListSelector"]
    for k, n, k2 in cases:
        want = "accept" if (k in allowed or (k == "ListSelector" and n == 1 and k2 in allowed)) else "refuse"
        got = run(k, n, k2)
        shape = k if k != "ListSelector" else f"a bracketed list of {n} x {k2}"
        if got == want:
            rr.ok(fn.loc(loop), f"singular_query: {shape} -> {want}")
        elif got == "undecided":
            raise AnalysisError(f"R7.3: the decision of singular_query for {shape} cannot be folded")
        else:
            rr.bad(fn, loop, f"singular_query {got}s {shape}: RFC 9535 allows only name and index selectors in a singular "
                   "query (a bracketed list only with exactly one of them)" + (
                       "; a query selecting several nodes is then accepted as a comparison operand" if got == "accept" else ""),
                   construct=f"singular_query {got}s {shape}")
    # after the loop True
    after = fn.node.body[fn.node.body.index(loop) + 1:]
    if len(after) == 1 and isinstance(after[0], ast.Return) and isinstance(after[0].value, ast.Constant) and after[0].value.value is True:
        rr.ok(fn.loc(), "True only after every selector has been accepted")
    else:
        rr.bad(fn, fn.node, "singular_query must return True only after the loop over the selectors",
               construct="singular_query returns")
    return rr


def r7_4(ctx: Ctx) -> RuleResult:
    rr = RuleResult("R7.4", "function signatures: arity first, every parameter type handled, unknown names refused", floor=5)
    cw = ctx.repo.require_func("JSONPathEnvironment.check_well_typedness")

    def refine(test: ast.expr, branch: bool) -> List[str]:
        if isinstance(test, ast.Compare) and "len(" in ast.unparse(test) and isinstance(test.ops[0], ast.NotEq) and not branch:
            return ["arity_ok@"]
        if isinstance(test, ast.Compare) and "len(" in ast.unparse(test) and isinstance(test.ops[0], ast.Eq) and branch:
            return ["arity_ok@"]
        return []

    flow = must_flow(cw.node, refine_events=refine)
    loops = [n for n in ast.walk(cw.node) if isinstance(n, ast.For)]
    if not loops:
        raise AnalysisError("R7.4: no per-argument loop in check_well_typedness")
    for lp in loops:
        st = flow.pre.get(id(lp)) or frozenset()
        if "arity_ok@" in st:
            rr.ok(cw.loc(lp), "the argument count is checked before the per-argument loop")
        else:
            rr.bad(cw, lp, "arguments are inspected before their number has been checked (too few arguments "
                   "would raise IndexError, too many would be ignored)", construct="arity check before loop")
    et = ctx.repo.require_class("ExpressionType")
    members = [k for k in et.assigns]
    handled = {m for m in members if any(
        isinstance(n, ast.Compare) and f"ExpressionType.{m}" in ast.unparse(n) for n in ast.walk(cw.node))}
    for m in members:
        if m in handled:
            rr.ok(cw.loc(), f"parameter type {m} has a branch")
        else:
            rr.bad(cw, cw.node, f"check_well_typedness has no branch for parameter type {m}", construct=f"branch {m}")
    vf = ctx.repo.require_func("JSONPathEnvironment.validate_function_extension_signature")
    first = [s for s in vf.node.body if not (isinstance(s, ast.Expr) and isinstance(s.value, ast.Constant))][0]
    ok = False
    if isinstance(first, ast.Try):
        for h in first.handlers:
            names = ctx.escapes._handler_types(vf, h)
            if any(n.endswith("KeyError") for n in names) and any(
                isinstance(r, ast.Raise) and _raise_class(ctx, vf, r) == "JSONPathNameError" for r in ast.walk(h)
            ):
                ok = True
    if ok:
        rr.ok(vf.loc(), "an unknown function name raises JSONPathNameError before anything else")
    else:
        rr.bad(vf, vf.node, "an unknown function must be refused with JSONPathNameError first",
               construct="unknown function refusal")
    return rr


def _range_events(test: ast.expr, branch: bool) -> List[str]:
    """Interval facts a comparison with the environment's limits establishes on one branch:
    `ge@v` (v >= min_int_index), `le@v` (v <= max_int_index); `v is None` establishes both
    (an absent slice bound needs no check)."""
    if not (isinstance(test, ast.Compare) and len(test.ops) == 1):
        return []
    left, op, right = test.left, test.ops[0], test.comparators[0]
    lp, rp = path_of(left) or "", path_of(right) or ""
    if isinstance(op, (ast.Is, ast.IsNot)) and isinstance(right, ast.Constant) and right.value is None and lp:
        if isinstance(op, ast.Is) == branch:
            return [f"ge@{lp}", f"le@{lp}"]
        return []
    lo_l, hi_l = lp.endswith("min_int_index"), lp.endswith("max_int_index")
    lo_r, hi_r = rp.endswith("min_int_index"), rp.endswith("max_int_index")
    # normalise to `v OP limit`
    flip = {ast.Lt: ast.Gt, ast.Gt: ast.Lt, ast.LtE: ast.GtE, ast.GtE: ast.LtE}
    if (lo_l or hi_l) and rp and type(op) in flip:
        v, o, lo, hi = rp, flip[type(op)], lo_l, hi_l
    elif (lo_r or hi_r) and lp and type(op) in flip:
        v, o, lo, hi = lp, type(op), lo_r, hi_r
    else:
        return []
    if lo and ((o is ast.Lt and not branch) or (o is ast.GtE and branch)):
        return [f"ge@{v}"]
    if hi and ((o is ast.Gt and not branch) or (o is ast.LtE and branch)):
        return [f"le@{v}"]
    return []


def _range_summary(helper: FuncInfo, skip: int = 1, expr_events=None) -> Tuple[Set[str], bool]:  # type: ignore[no-untyped-def]
    """(parameters, all-varargs?) that are within the limits whenever `helper` returns normally."""
    flow = must_flow(helper.node, refine_events=_range_events, expr_events=expr_events)
    params = [a.arg for a in helper.node.args.args][skip:]
    exits = [st for kind, _n, st in flow.exits if st is not None and kind in ("return", "fall")]
    good = {p for p in params if exits and all({f"ge@{p}", f"le@{p}"} <= st for st in exits)}
    var_ok = False
    va = helper.node.args.vararg
    if va is not None:
        loops = [n for n in ast.walk(helper.node) if isinstance(n, ast.For) and path_of(n.iter) == va.arg]
        for lp in loops:
            v = path_of(lp.target)
            backs = [st for st in flow.back.get(id(lp), []) if st is not None]
            no_break = not any(isinstance(n, ast.Break) for n in ast.walk(lp))
            if v and backs and no_break and all({f"ge@{v}", f"le@{v}"} <= st for st in backs):
                var_ok = True
    return good, var_ok


def r7_5(ctx: Ctx) -> RuleResult:
    rr = RuleResult("R7.5", "index and slice bounds are range-checked against the environment's limits", floor=4)
    for cname, params, field in (("IndexSelector", ["index"], "self.index"), ("SliceSelector", ["start", "stop", "step"], "self.slice")):
        cls = ctx.repo.require_class(f"jsonpath.selectors.{cname}")
        init = cls.methods.get("__init__")
        if init is None:
            raise AnalysisError(f"{cname}.__init__ not found")
        summaries: Dict[str, Tuple[Set[str], bool, FuncInfo]] = {}

        def call_events(e: ast.expr) -> List[str]:
            if not isinstance(e, ast.Call):
                return []
            if isinstance(e.func, ast.Attribute) and path_of(e.func.value) == "self":
                helper = ctx.repo.find_method(cls, e.func.attr)
                skip = 1
            else:
                # a plain function of the package (the check may live in a helper module)
                site = ctx.callgraph.by_node.get(id(e))
                cands = [c for c in (site.callees if site is not None else []) if c.cls is None and c.module.name.startswith("jsonpath")]
                helper = cands[0] if len(cands) == 1 and isinstance(e.func, ast.Name) else None
                skip = 0
            if helper is None or helper.node is init.node:
                return []
            if helper.qualname not in summaries:
                summaries[helper.qualname] = (set(), False, helper)  # (a helper that calls itself proves nothing by that)
                good, var_ok = _range_summary(helper, skip, call_events)
                summaries[helper.qualname] = (good, var_ok, helper)
            good, var_ok, _h = summaries[helper.qualname]
            hp = [a.arg for a in helper.node.args.args][skip:]
            out: List[str] = []
            for i, a in enumerate(e.args):
                v = path_of(a)
                if not v:
                    continue
                if (i < len(hp) and hp[i] in good) or (i >= len(hp) and var_ok):
                    out += [f"ge@{v}", f"le@{v}"]
            for k in e.keywords:
                v = path_of(k.value)
                if v and k.arg in good:
                    out += [f"ge@{v}", f"le@{v}"]
            return out

        flow = must_flow(init.node, expr_events=call_events, refine_events=_range_events)
        stores = [n for n in ast.walk(init.node) if isinstance(n, ast.Assign) and any(path_of(t) == field for t in n.targets)]
        if not stores:
            raise AnalysisError(f"R7.5: {cname}.__init__ no longer stores {field}")
        for fn in [init] + [h for _g, _v, h in summaries.values()]:
            for r in [x for x in ast.walk(fn.node) if isinstance(x, ast.Raise)]:
                if any("_int_index" in ast.unparse(t) for t, _b in path_conditions(fn.node, r)):
                    rc = _raise_class(ctx, fn, r)
                    if rc == "JSONPathIndexError":
                        rr.ok(fn.loc(r), f"{fn.name}: an out-of-range value raises JSONPathIndexError")
                    else:
                        rr.bad(fn, r, f"an out-of-range index must raise JSONPathIndexError, not {rc}", construct=short(r))
        for n in stores:
            st = flow.pre.get(id(n)) or frozenset()
            used = [x.id for x in ast.walk(n.value) if isinstance(x, ast.Name) and x.id in params]
            if sorted(set(used)) != sorted(params):
                raise AnalysisError(f"R7.5: `{short(n)}` does not store the constructor's {params}")
            for p in params:
                lacking = [w for w, f in (("min_int_index", f"ge@{p}"), ("max_int_index", f"le@{p}")) if f not in st]
                if not lacking:
                    rr.ok(init.loc(n), f"{cname}: `{p}` is within env.min_int_index .. env.max_int_index when `{short(n, 40)}` runs")
                else:
                    rr.bad(init, n, f"{cname}: `{p}` can reach `{short(n, 50)}` without having been compared with the "
                           f"environment's {' and '.join(lacking)} on every path: an out-of-range "
                           "index is accepted instead of raising JSONPathIndexError",
                           construct=f"{cname}.{p} range check ({', '.join(lacking)})")
    return rr


def r7_6(ctx: Ctx) -> RuleResult:
    rr = RuleResult("R7.6", "an index with a leading zero and an empty bracket list are refused", floor=2)
    fn = ctx.repo.require_func("Parser.parse_selector_list")
    # leading zero: either the INT token excludes it, or a dominating raise tests startswith("0") / "-0"
    shapes = ctx.lexer.value_shapes("INT") or []
    token_allows = any(len(s) > 1 and (s.startswith("0") or s.startswith("-0")) and s.lstrip("-").isdigit() for s in shapes)
    ctor = [c for c in calls(fn.node, "IndexSelector")]
    if not ctor:
        raise AnalysisError("R7.6: no IndexSelector construction in parse_selector_list")

    import re as _re

    from sa.flow import parent_map

    parents = parent_map(fn.node)

    # the token text is whatever int() converts into the selector's index
    def text_expr(c: ast.Call) -> str:
        idx = kw(c, "index")
        cands: List[ast.expr] = [idx] if idx is not None else []
        if isinstance(idx, ast.Name):
            cands = [a.value for a in ast.walk(fn.node) if isinstance(a, ast.Assign) and path_of(a.targets[0]) == idx.id]
        for v in cands:
            if isinstance(v, ast.Call) and callee_name(v) == "int" and len(v.args) == 1:
                return ast.unparse(v.args[0])
        raise AnalysisError(f"R7.6: the index passed to `{short(c, 60)}` is not the result of int(<token text>)")

    class _Bind(ast.NodeTransformer):
        def __init__(self, value: str, text: str) -> None:
            self.value = value
            self.text = text

        def visit(self, node: ast.AST) -> ast.AST:
            if isinstance(node, (ast.Attribute, ast.Name)) and isinstance(node.ctx, ast.Load) and ast.unparse(node) == self.text:
                return ast.Constant(value=self.value)
            return super().visit(node)

    leading = [s_ for s_ in shapes if _re.fullmatch(r"-?0[0-9]+|-0", s_)]
    for c in ctor:
        # `if <test>: raise` statements that precede the construction in an enclosing block
        tests: List[ast.expr] = []
        cur: Optional[ast.AST] = c
        while cur is not None:
            par = parents.get(id(cur))
            for field in ("body", "orelse"):
                block = getattr(par, field, None)
                if isinstance(block, list) and cur in block:
                    for s_ in block[: block.index(cur)]:
                        if isinstance(s_, ast.If) and not s_.orelse and any(isinstance(x, ast.Raise) for x in s_.body):
                            tests.append(s_.test)
            cur = par
        unrefused = []
        for shape in leading:
            hit = False
            for t in tests:
                import copy as _copy

                bound = _Bind(shape, text_expr(c)).visit(_copy.deepcopy(t))
                ast.fix_missing_locations(bound)
                try:
                    if ctx.folder.eval_in(bound, fn.module, fn.cls):
                        hit = True
                except NotConst:
                    continue
            if not hit:
                unrefused.append(shape)
        if not leading or not unrefused:
            rr.ok(fn.loc(c), f"index tokens with a leading zero are refused before construction "
                  f"({len(leading)} token shapes such as {leading[:3]} evaluated against {len(tests)} guards)")
        else:
            rr.bad(fn, c, f"an index selector can be constructed from a token with a leading zero, e.g. "
                   f"`$[{unrefused[0]}]`", construct="leading zero check")
    # empty list
    ls = [c for c in calls(fn.node, "ListSelector")]
    if not ls:
        raise AnalysisError("R7.6: no ListSelector construction in parse_selector_list")
    items = path_of(kw(ls[0], "items")) if kw(ls[0], "items") is not None else None

    def refine2(test: ast.expr, branch: bool) -> List[str]:
        if path_of(test) == items and branch:
            return ["nonempty@"]
        if isinstance(test, ast.UnaryOp):
            return []
        return []

    flow2 = must_flow(fn.node, refine_events=refine2)
    st = flow2.at.get(id(ls[0])) or frozenset()
    if "nonempty@" in st:
        rr.ok(fn.loc(ls[0]), "an empty bracketed selection is refused before the list selector is built")
    else:
        rr.bad(fn, ls[0], "a list selector can be constructed without items (`$[]`)", construct="empty list check")
    return rr


def r7_7(ctx: Ctx) -> RuleResult:
    """Well-typedness of function arguments (RFC 9535 2.4.3) as an acceptance table.  The per-argument check is
    partially evaluated for a ValueType and a NodesType parameter against every kind of argument: a literal, a
    singular and a non-singular query, a logical expression, and a nested function call of each declared result
    type.  The check must raise exactly where the RFC refuses."""
    import copy as _copy

    from sa.loader import FuncInfo as _FI
    from sa.peval import Explorer

    rr = RuleResult("R7.7", "function arguments are accepted exactly as RFC 9535 2.4.3 types them", floor=14)
    cw = ctx.repo.require_func("JSONPathEnvironment.check_well_typedness")
    loops = [n for n in cw.node.body if isinstance(n, ast.For)]
    if len(loops) != 1:
        raise AnalysisError("R7.7: check_well_typedness is no longer one loop over the parameters")
    shell = _copy.copy(cw.node)
    shell.body = loops[0].body
    per_arg = _FI(qualname=cw.qualname, name=cw.name, node=shell, module=cw.module, cls=cw.cls)
    et = ctx.repo.require_class("ExpressionType")
    # (parameter type, argument class, result type of a nested call, singular?, accepted?)
    table = [
        ("VALUE", "IntegerLiteral", None, None, True), ("VALUE", "StringLiteral", None, None, True),
        ("VALUE", "SelfPath", None, True, True), ("VALUE", "SelfPath", None, False, False),
        ("VALUE", "RootPath", None, True, True), ("VALUE", "RootPath", None, False, False),
        ("VALUE", "InfixExpression", None, None, False),
        ("VALUE", "FunctionExtension", "VALUE", None, True), ("VALUE", "FunctionExtension", "LOGICAL", None, False),
        ("VALUE", "FunctionExtension", "NODES", None, False),
        ("NODES", "SelfPath", None, True, True), ("NODES", "SelfPath", None, False, True),
        ("NODES", "FunctionExtension", "NODES", None, True), ("NODES", "FunctionExtension", "VALUE", None, False),
        ("NODES", "FunctionExtension", "LOGICAL", None, False), ("NODES", "IntegerLiteral", None, None, False),
        ("NODES", "InfixExpression", None, None, False),
    ]
    for ptype, acls, ret, singular, want in table:
        kcls = ctx.repo.require_class(f"jsonpath.filter.{acls}")

        def oracle(t: ast.expr, env: dict, kcls=kcls, ptype=ptype, ret=ret, singular=singular) -> Optional[bool]:  # type: ignore[no-untyped-def,type-arg]
            icl = isinstance_classes(t)
            if icl is not None and not icl[0].startswith("self"):
                try:
                    classes = ctx.folder.eval_in(t.args[1], cw.module, cw.cls)  # type: ignore[attr-defined]
                except NotConst:
                    return None
                classes = classes if isinstance(classes, tuple) else (classes,)
                names = [getattr(getattr(c, "cls", None), "qualname", None) for c in classes]
                if any(n is None for n in names):
                    return None
                return any(ctx.repo.is_subclass(kcls.qualname, n) for n in names)
            if isinstance(t, ast.Call) and callee_name(t) == "singular_query":
                return singular
            if isinstance(t, ast.Compare) and len(t.ops) == 1 and isinstance(t.ops[0], (ast.Eq, ast.NotEq, ast.Is, ast.IsNot)):
                for side, other in ((t.comparators[0], t.left), (t.left, t.comparators[0])):
                    if isinstance(other, ast.Call) and callee_name(other) == "_function_return_type" and isinstance(side, ast.Constant) and side.value is None:
                        return (ret is None) == isinstance(t.ops[0], (ast.Eq, ast.Is))
                    try:
                        m = ctx.folder.eval_in(side, cw.module, cw.cls)
                    except NotConst:
                        continue
                    if isinstance(m, EnumMember) and m.cls is et:
                        positive = isinstance(t.ops[0], (ast.Eq, ast.Is))
                        if isinstance(other, ast.Call) and callee_name(other) == "_function_return_type":
                            return (m.name == ret) == positive
                        return (m.name == ptype) == positive
            if (isinstance(t, ast.Compare) and len(t.ops) == 1 and isinstance(t.ops[0], (ast.In, ast.NotIn)) and isinstance(t.comparators[0], (ast.Tuple, ast.List, ast.Set))
                    and isinstance(t.left, ast.Call) and callee_name(t.left) == "_function_return_type"):
                # `self._function_return_type(arg) in (ExpressionType.VALUE, None)`
                hit = False
                for elt in t.comparators[0].elts:
                    if isinstance(elt, ast.Constant) and elt.value is None:
                        hit = hit or ret is None
                        continue
                    try:
                        m = ctx.folder.eval_in(elt, cw.module, cw.cls)
                    except NotConst:
                        return None
                    if not (isinstance(m, EnumMember) and m.cls is et):
                        return None
                    hit = hit or m.name == ret
                return hit == isinstance(t.ops[0], ast.In)
            return None

        ex = Explorer(ctx.folder, per_arg, oracle)
        outs = ex.run({})
        kinds = {k for k, _n, _v in outs}
        what = f"a {ptype.capitalize()}Type parameter and " + (
            f"a nested call of a function declared to return {ret.capitalize()}Type" if ret else
            (f"a {'singular' if singular else 'non-singular'} query" if singular is not None else f"an argument of class {acls}"))
        if not outs:
            raise AnalysisError(f"R7.7: the per-argument check has no outcome for {what}")
        if "return" in kinds:
            rr.bad(cw, cw.node, f"for {what} the check of this argument *returns*: the arguments that follow are not checked at all "
                   "(`match(@.a, @.*)` compiles)", construct=f"{ptype} parameter, {acls}: returns from the loop over the arguments")
            continue
        accepted = kinds <= {"continue", "fall"}
        refused = kinds == {"raise"}
        if (want and accepted) or (not want and refused):
            rr.ok(cw.loc(), f"{what}: {'accepted' if want else 'refused'}")
        elif not accepted and not refused:
            raise AnalysisError(f"R7.7: the per-argument check is not decided for {what} (outcomes {sorted(kinds)})")
        else:
            rr.bad(cw, cw.node, f"{what} is {'refused' if want else 'accepted'} by check_well_typedness; RFC 9535 2.4.3 "
                   f"{'accepts' if want else 'refuses'} it" + (" (e.g. `length(match(@.a, 'x'))` compiles)" if ptype == "VALUE" and ret == "LOGICAL" else ""),
                   construct=f"{ptype} parameter, {acls}{' returning ' + ret if ret else ''}{'' if singular is None else (' singular' if singular else ' non-singular')}: "
                             f"{'refused' if want else 'accepted'}")
    return rr


RULES = [r7_1, r7_2, r7_3, r7_4, r7_5, r7_6, r7_7]
